package main

// C11: IsPlanar decides planarity for every graph and never aborts.
// Part A: every labelled graph with n <= 7 (8 thorough) against a K5/K3,3-minor table built bottom-up.
// Part B: explicit-state search over truth-preserving operations from seeds of known planarity (n <= 14).

import (
	"encoding/json"
	"fmt"
	"math/bits"
	"sync"
	"sync/atomic"
	"time"

	"github.com/Tom-Johnston/mamba/graph"
)

// ---- minor oracle ----

// kuratowskiMasks returns the edge masks (DenseGraph order) of every K5 and every K3,3 on vertex subsets of [0,n).
func kuratowskiMasks(n int) []uint64 {
	var out []uint64
	e := func(i, j int) uint64 {
		if i > j {
			i, j = j, i
		}
		return 1 << uint(j*(j-1)/2+i)
	}
	for s := uint(0); s < 1<<uint(n); s++ {
		c := bits.OnesCount(s)
		if c == 5 {
			vs := maskToList(uint64(s))
			var m uint64
			for a := 0; a < 5; a++ {
				for b := 0; b < a; b++ {
					m |= e(vs[a], vs[b])
				}
			}
			out = append(out, m)
		}
		if c == 6 {
			vs := maskToList(uint64(s))
			// bipartitions with vs[0] on the left: choose 2 more of the other 5
			for x := 1; x < 6; x++ {
				for y := x + 1; y < 6; y++ {
					left := []int{vs[0], vs[x], vs[y]}
					var right []int
					for k := 1; k < 6; k++ {
						if k != x && k != y {
							right = append(right, vs[k])
						}
					}
					var m uint64
					for _, a := range left {
						for _, b := range right {
							m |= e(a, b)
						}
					}
					out = append(out, m)
				}
			}
		}
	}
	return out
}

func rowsFromMask(n int, mask uint64, rows []uint16) {
	for i := 0; i < n; i++ {
		rows[i] = 0
	}
	idx := uint(0)
	for j := 1; j < n; j++ {
		for i := 0; i < j; i++ {
			if mask>>idx&1 == 1 {
				rows[i] |= 1 << uint(j)
				rows[j] |= 1 << uint(i)
			}
			idx++
		}
	}
}

func maskFromRows(n int, rows []uint16) uint64 {
	var m uint64
	for j := 1; j < n; j++ {
		m |= uint64(rows[j]&(1<<uint(j)-1)) << uint(j*(j-1)/2)
	}
	return m
}

// contractMask contracts the edge (u,v), u < v, of the n-vertex graph: v is merged into u and removed.
func contractMask(n int, rows []uint16, u, v int, out []uint16) uint64 {
	low := uint16(1)<<uint(v) - 1
	k := 0
	for w := 0; w < n; w++ {
		if w == v {
			continue
		}
		r := rows[w]
		if w == u {
			r |= rows[v]
		}
		if r>>uint(v)&1 == 1 {
			r |= 1 << uint(u)
		}
		r &^= 1 << uint(w) // no loop (w == u case)
		r = r&low | (r>>uint(v+1))<<uint(v)
		out[k] = r
		k++
	}
	// out[u] must not contain itself
	out[u] &^= 1 << uint(u)
	return maskFromRows(n-1, out)
}

// nonplanarTable[n] is a bitmap over all labelled graphs on n vertices: bit set = has a K5 or K3,3 minor.
type bitmap []uint64

func (b bitmap) get(i uint64) bool { return b[i>>6]>>(i&63)&1 == 1 }
func (b bitmap) set(i uint64)      { atomic.OrUint64(&b[i>>6], 1<<(i&63)) }

func newBitmap(n uint64) bitmap { return make(bitmap, (n+63)/64) }

func buildNonplanarTables(c *Ctx, maxN int) []bitmap {
	tables := make([]bitmap, maxN+1)
	for n := 0; n <= maxN; n++ {
		total := uint64(1) << uint(edgeCount(n))
		tables[n] = newBitmap(total)
		if n < 5 {
			continue
		}
		km := kuratowskiMasks(n)
		prev := tables[n-1]
		c.parFor(int64(total), 1<<14, func(lo, hi int64) {
			rows := make([]uint16, n)
			out := make([]uint16, n)
			for m := uint64(lo); m < uint64(hi); m++ {
				if nonplanarByMinor(n, m, km, prev, rows, out) {
					tables[n].set(m)
				}
			}
		})
	}
	return tables
}

func nonplanarByMinor(n int, m uint64, km []uint64, prev bitmap, rows, out []uint16) bool {
	if bits.OnesCount64(m) < 9 {
		return false
	}
	for _, k := range km {
		if m&k == k {
			return true
		}
	}
	if n <= 5 {
		return false
	}
	rowsFromMask(n, m, rows)
	for v := 1; v < n; v++ {
		for r := rows[v] & (1<<uint(v) - 1); r != 0; r &= r - 1 {
			u := bits.TrailingZeros16(r)
			if prev.get(contractMask(n, rows, u, v, out)) {
				return true
			}
		}
	}
	return false
}

var labelledPlanarCounts = []int64{1, 1, 2, 8, 64, 1023, 32071, 1823707, 163947848}

type planarCase struct {
	N     int      `json:"n"`
	Mask  uint64   `json:"mask,omitempty"`
	G6    string   `json:"graph6,omitempty"`
	Rep   string   `json:"rep,omitempty"`
	Edges [][2]int `json:"edges,omitempty"`
	Truth *bool    `json:"planar_by_construction,omitempty"`
	Trace []string `json:"trace,omitempty"`
}

// libPlanarTimed calls IsPlanar under a deadline (the property states termination).
func libPlanar(g graph.Graph) (res bool, class, what string) {
	type r struct {
		v   bool
		msg string
		pan bool
	}
	ch := make(chan r, 1)
	go func() {
		var v bool
		msg, p := try(func() { v = graph.IsPlanar(g) })
		ch <- r{v, msg, p}
	}()
	select {
	case x := <-ch:
		if x.pan {
			return false, "panic", x.msg
		}
		return x.v, "", ""
	case <-time.After(120 * time.Second):
		return false, "does-not-terminate", "no answer within 120s"
	}
}

func evalPlanarSmall(pc planarCase, tables []bitmap) *Failure {
	n, mask := pc.N, pc.Mask
	mk := func(cl, what string) *Failure {
		return &Failure{Class: "planar/" + cl, What: fmt.Sprintf("%s %s (n=%d): %s", pc.Rep, g6(n, mask), n, what), Kind: "planar-small", Replay: pc}
	}
	var g graph.Graph
	if pc.Rep == "" || pc.Rep == "dense" {
		g = denseFromMask(n, mask)
	} else {
		g = graphInRep(pc.Rep, n, mask)
	}
	var got bool
	msg, p := try(func() { got = graph.IsPlanar(g) })
	if p {
		return mk("panic", msg)
	}
	want := !tables[n].get(mask)
	if got != want {
		if want {
			return mk("planar-graph-rejected", "IsPlanar = false but the graph has no K5 or K3,3 minor")
		}
		return mk("nonplanar-graph-accepted", "IsPlanar = true but the graph has a K5 or K3,3 minor")
	}
	return nil
}

func c11Exhaustive(c *Ctx, maxN int) []bitmap {
	tables := buildNonplanarTables(c, maxN)
	for n := 0; n <= maxN; n++ {
		total := uint64(1) << uint(edgeCount(n))
		lib := newBitmap(total) // bit set = library says planar
		var planarCount int64
		var deadlineHit int32
		c.parFor(int64(total), 1<<12, func(lo, hi int64) {
			var cnt int64
			for m := uint64(lo); m < uint64(hi); m++ {
				if m&0xfff == 0 && c.Expired() {
					atomic.StoreInt32(&deadlineHit, 1)
					return
				}
				var got bool
				g := denseFromMask(n, m)
				msg, p := try(func() { got = graph.IsPlanar(g) })
				want := !tables[n].get(m)
				if p || got != want {
					_ = msg
					pc := planarCase{N: n, Mask: m, G6: g6(n, m), Rep: "dense"}
					c.Check(func() *Failure { return evalPlanarSmall(pc, tables) })
				}
				if got && !p {
					lib.set(m)
				}
				if want {
					cnt++
				}
			}
			atomic.AddInt64(&planarCount, cnt)
		})
		c.Evals(int64(total))
		if deadlineHit == 1 {
			c.CapHit(fmt.Sprintf("deadline during n=%d", n))
			return tables
		}
		if n < len(labelledPlanarCounts) && planarCount != labelledPlanarCounts[n] {
			c.HarnessError("minor oracle counts %d labelled planar graphs on %d vertices, OEIS A066537 says %d", planarCount, n, labelledPlanarCounts[n])
		}
		c.Count(fmt.Sprintf("labelled_planar_n%d", n), planarCount)
		c.Nontrivial(int64(total) - planarCount)
		// monotonicity on the library's own answers: planar(g) => planar(g - e)
		var monoBad int64
		c.parFor(int64(total), 1<<14, func(lo, hi int64) {
			for m := uint64(lo); m < uint64(hi); m++ {
				if !lib.get(m) {
					continue
				}
				for t := m; t != 0; t &= t - 1 {
					sub := m &^ (1 << uint(bits.TrailingZeros64(t)))
					if !lib.get(sub) {
						if atomic.AddInt64(&monoBad, 1) == 1 {
							c.Fail(&Failure{Class: "planar/subgraph-of-planar-reported-nonplanar", What: fmt.Sprintf("n=%d: %s reported planar, its subgraph %s reported non-planar", n, g6(n, m), g6(n, sub)), Kind: "planar-small", Replay: planarCase{N: n, Mask: sub, G6: g6(n, sub), Rep: "dense"}})
						}
					}
				}
			}
		})
	}
	return tables
}

type planarBatch struct {
	N    int    `json:"n"`
	Lo   uint64 `json:"lo"`
	Hi   uint64 `json:"hi"`
	Step uint64 `json:"step"`
}

func runC11(c *Ctx) {
	c.Level = "model_checking"
	c.Rule = "part A: every labelled graph with n<=7 (8 thorough) against a bottom-up K5/K3,3-minor table (cross-checked with the published counts of labelled planar graphs), other representations for n<=6, monotonicity under edge deletion on the library's own answers; part B: explicit-state BFS over truth-preserving operations (subdivide, pendant, isolated vertex, relabel, delete edge on the planar side, add edge on the non-planar side) from seeds of known planarity (all triangulations generated from K4 by two expansions, wheels, prisms, antiprisms, icosahedron; K5, K3,3 and their subdivisions), n<=14, deduplicated on the labelled edge set; part C: graphs with 63-140 vertices of known planarity (wheels with the hub at several labels, path cubes, random triangulations grown by the two expansions and their subgraphs, grids, chains of blocks, triangulations plus a subdivided extra edge, torus grid, heavily subdivided K5/K3,3/Petersen) under identity, reversal, rotations and pseudo-random relabellings, dense and sparse; non-trivial = non-planar graph (part A) or state with n >= 9 (part B)"
	maxN := 7
	if c.Thorough() {
		maxN = 8
	}
	// canary in isolated workers: IsPlanar is the one function of the library that has been seen to allocate without
	// bound when it is wrong, which would end this process without a verdict. So before anything runs in-process, a
	// first pass runs in crash- and hang-isolated workers: every labelled graph with n <= 6, every 8th labelled graph on
	// 7 vertices (each worker builds the minor tables once), and the part-C graphs (below, isolated as well). If a
	// worker dies or hangs the graph is reported and the in-process parts are skipped.
	{
		var batches []interface{}
		var raw []planarBatch
		for n := 0; n <= 7; n++ {
			total := uint64(1) << uint(edgeCount(n))
			step := uint64(1)
			if n == 7 {
				step = 8
			}
			const B = 1 << 13
			for lo := uint64(0); lo < total; lo += B * step {
				hi := lo + B*step
				if hi > total {
					hi = total
				}
				b := planarBatch{N: n, Lo: lo, Hi: hi, Step: step}
				batches = append(batches, b)
				raw = append(raw, b)
			}
		}
		var abnormal int32
		c.RunIsolated("planar-small-batch", batches, 300*time.Second, func(i int, timedOut bool, stderr string) *Failure {
			atomic.StoreInt32(&abnormal, 1)
			cl := "planar/kills-the-process"
			if timedOut {
				cl = "planar/does-not-terminate"
			}
			if len(stderr) > 300 {
				stderr = stderr[:300]
			}
			return &Failure{Class: cl, What: fmt.Sprintf("labelled graphs on %d vertices, masks %d..%d (step %d): IsPlanar gave no answer in an isolated worker: %s", raw[i].N, raw[i].Lo, raw[i].Hi, raw[i].Step, stderr), Kind: "planar-small-batch", Replay: raw[i]}
		})
		c.SetCount("isolated_canary_batches", int64(len(batches)))
		c11Large(c) // part C, isolated as well
		c.mu.Lock()
		found := len(c.findings)
		c.mu.Unlock()
		if abnormal == 1 || found > 0 {
			c.CapHit("the isolated passes (canary over small graphs, part C) already report failures; the in-process parts A and B were skipped, since an IsPlanar that is wrong may also exhaust memory")
			return
		}
	}
	tables := c11Exhaustive(c, maxN)
	// other representations
	for n := 5; n <= 6; n++ {
		total := int64(1) << uint(edgeCount(n))
		c.parFor(total, 256, func(lo, hi int64) {
			for m := lo; m < hi; m++ {
				for _, rep := range []string{"sparse", "cocomplement", "induced-view", "dense-bytes", "nested-view"} {
					pc := planarCase{N: n, Mask: uint64(m), G6: g6(n, uint64(m)), Rep: rep}
					c.Check(func() *Failure { return evalPlanarSmall(pc, tables) })
				}
			}
		})
	}
	// views stay live (query, edit the base, query again): dense base graphs on 5 and 6 vertices
	var vcs []viewCase
	for _, vc := range viewHistoryCases(5, "IsPlanar") {
		vcs = append(vcs, vc)
	}
	full6 := uint64(1)<<15 - 1
	for drop := 0; drop < 15; drop++ { // K6 minus one edge and its neighbours in the edit graph
		mask := full6 &^ (1 << uint(drop))
		for _, edits := range viewEditSequences(6, mask) {
			vcs = append(vcs, viewCase{N: 6, Mask: mask, Rep: "dense", View: "induced", V: []int{5, 4, 3, 2, 1, 0}, Edits: edits, What: "IsPlanar"})
		}
	}
	c.parFor(int64(len(vcs)), 64, func(lo, hi int64) {
		for _, vc := range vcs[lo:hi] {
			vc := vc
			c.Check(func() *Failure {
				return evalViewHistory(vc, func(g graph.Graph) string { return fmt.Sprint(graph.IsPlanar(g)) })
			})
		}
	})
	c.SetCount("view_histories", int64(len(vcs)))
	c11Search(c, tables)
	c.Sample("labelled-graph", planarCase{N: 7, Mask: 0x1fffff &^ 0x3, G6: g6(7, 0x1fffff&^0x3), Rep: "dense"})
	c.Assume("graphs with n >= 9 are covered only through the operation search of part B")
}

var c11TablesOnce sync.Once
var c11Tables []bitmap

func replayC11(kind string, raw json.RawMessage) *Failure {
	var pc planarCase
	if err := json.Unmarshal(raw, &pc); err != nil {
		return &Failure{Class: "replay/bad-file", What: err.Error()}
	}
	switch kind {
	case "view-history":
		var vc viewCase
		json.Unmarshal(raw, &vc)
		return evalViewHistory(vc, func(g graph.Graph) string { return fmt.Sprint(graph.IsPlanar(g)) })
	case "planar-small":
		c11TablesOnce.Do(func() {
			c := newCtx("C11", "quick")
			c11Tables = buildNonplanarTables(c, 7)
		})
		if pc.N > 7 {
			return evalPlanarBig8(pc)
		}
		return evalPlanarSmall(pc, c11Tables)
	case "planar-small-batch":
		var b planarBatch
		if err := json.Unmarshal(raw, &b); err != nil {
			return &Failure{Class: "replay/bad-file", What: err.Error()}
		}
		c11TablesOnce.Do(func() {
			c := newCtx("C11", "quick")
			c11Tables = buildNonplanarTables(c, 7)
		})
		for m := b.Lo; m < b.Hi; m += b.Step {
			pc := planarCase{N: b.N, Mask: m, G6: g6(b.N, m), Rep: "dense"}
			if f := evalPlanarSmall(pc, c11Tables); f != nil {
				return f
			}
		}
		return nil
	case "planar-state-eg":
		return evalPlanarStateEG(pc)
	case "planar-state":
		if pc.N > 64 {
			return evalPlanarStateEG(pc)
		}
		return evalPlanarState(pc)
	}
	return &Failure{Class: "replay/unsupported-kind", What: kind}
}

// evalPlanarBig8 re-evaluates one 8-vertex graph (oracle: K5/K3,3 subgraph or a non-planar 7-vertex contraction).
func evalPlanarBig8(pc planarCase) *Failure {
	c11TablesOnce.Do(func() {
		c := newCtx("C11", "quick")
		c11Tables = buildNonplanarTables(c, 7)
	})
	n := pc.N
	rows := make([]uint16, n)
	out := make([]uint16, n)
	non := nonplanarByMinor(n, pc.Mask, kuratowskiMasks(n), c11Tables[n-1], rows, out)
	var got bool
	msg, p := try(func() { got = graph.IsPlanar(denseFromMask(n, pc.Mask)) })
	if p {
		return &Failure{Class: "planar/panic", What: msg, Kind: "planar-small", Replay: pc}
	}
	if got == non {
		cl := "planar-graph-rejected"
		if non {
			cl = "nonplanar-graph-accepted"
		}
		return &Failure{Class: "planar/" + cl, What: g6(n, pc.Mask), Kind: "planar-small", Replay: pc}
	}
	return nil
}

func init() { register("C11", runC11, replayC11) }
