package main

// Shared graph helpers: labelled graphs as edge bitmasks in DenseGraph order, an adjacency
// bit-row reference model, the well-formedness predicate W(g), relabelling generators.

import (
	"fmt"
	"math/bits"
	"sort"

	"github.com/Tom-Johnston/mamba/graph"
	"github.com/Tom-Johnston/mamba/sortints"
)

// MG is the reference model of a simple graph: adjacency rows as bitsets (n <= 64).
type MG struct {
	n   int
	a   []uint64
	big *EG // only for n > 64 (definitional models of large named graphs): the edge list; a is unused then
}

func newMG(n int) *MG { return &MG{n: n, a: make([]uint64, n)} }

func (m *MG) clone() *MG { return &MG{n: m.n, a: append([]uint64(nil), m.a...)} }

func (m *MG) has(i, j int) bool { return i != j && m.a[i]>>uint(j)&1 == 1 }

func (m *MG) set(i, j int, v bool) {
	if i == j {
		return
	}
	if v {
		m.a[i] |= 1 << uint(j)
		m.a[j] |= 1 << uint(i)
	} else {
		m.a[i] &^= 1 << uint(j)
		m.a[j] &^= 1 << uint(i)
	}
}

func (m *MG) edges() int {
	e := 0
	for _, r := range m.a {
		e += bits.OnesCount64(r)
	}
	return e / 2
}

func (m *MG) deg(i int) int { return bits.OnesCount64(m.a[i]) }

func (m *MG) nbrs(i int) []int {
	r := []int{}
	for j := 0; j < m.n; j++ {
		if m.a[i]>>uint(j)&1 == 1 {
			r = append(r, j)
		}
	}
	return r
}

func (m *MG) addVertex(nb []int) {
	m.a = append(m.a, 0)
	m.n++
	for _, v := range nb {
		m.set(m.n-1, v, true)
	}
}

func (m *MG) removeVertex(v int) {
	lowMask := uint64(1)<<uint(v) - 1
	na := make([]uint64, 0, m.n-1)
	for i := 0; i < m.n; i++ {
		if i == v {
			continue
		}
		r := m.a[i]
		na = append(na, r&lowMask|(r>>uint(v+1))<<uint(v))
	}
	m.a = na
	m.n--
}

func (m *MG) induced(V []int) *MG {
	h := newMG(len(V))
	for i := range V {
		for j := range V {
			if i != j && m.has(V[i], V[j]) {
				h.set(i, j, true)
			}
		}
	}
	return h
}

func (m *MG) String() string {
	s := fmt.Sprintf("n=%d edges=[", m.n)
	for j := 0; j < m.n; j++ {
		for i := 0; i < j; i++ {
			if m.has(i, j) {
				s += fmt.Sprintf("%d-%d ", i, j)
			}
		}
	}
	return s + "]"
}

func (m *MG) equal(o *MG) bool {
	if m.n != o.n {
		return false
	}
	for i := range m.a {
		if m.a[i] != o.a[i] {
			return false
		}
	}
	return true
}

// mask <-> MG; edge (i,j), i<j, is bit j(j-1)/2+i (DenseGraph order).
func mgFromMask(n int, mask uint64) *MG {
	m := newMG(n)
	idx := uint(0)
	for j := 1; j < n; j++ {
		for i := 0; i < j; i++ {
			if mask>>idx&1 == 1 {
				m.a[i] |= 1 << uint(j)
				m.a[j] |= 1 << uint(i)
			}
			idx++
		}
	}
	return m
}

func (m *MG) mask() uint64 {
	var mask uint64
	idx := uint(0)
	for j := 1; j < m.n; j++ {
		for i := 0; i < j; i++ {
			if m.has(i, j) {
				mask |= 1 << idx
			}
			idx++
		}
	}
	return mask
}

func mgFromGraph(g graph.Graph) *MG {
	n := g.N()
	m := newMG(n)
	for j := 1; j < n; j++ {
		for i := 0; i < j; i++ {
			if g.IsEdge(i, j) {
				m.set(i, j, true)
			}
		}
	}
	return m
}

func denseFromMask(n int, mask uint64) *graph.DenseGraph {
	e := make([]byte, n*(n-1)/2)
	for i := range e {
		if mask>>uint(i)&1 == 1 {
			e[i] = 1
		}
	}
	return graph.NewDense(n, e)
}

func denseFromMG(m *MG) *graph.DenseGraph { return denseFromMask(m.n, m.mask()) }

func sparseFromMG(m *MG) *graph.SparseGraph {
	nb := make([]sortints.SortedInts, m.n)
	for i := range nb {
		nb[i] = sortints.SortedInts(m.nbrs(i))
	}
	return graph.NewSparse(m.n, nb)
}

func edgeCount(n int) int { return n * (n - 1) / 2 }

// wellFormed is the predicate W(g) of DESIGN.md: g's observers describe exactly the model graph.
// It returns "" or a description of the first disagreement. Panics inside observers are reported.
func wellFormed(g graph.Graph, want *MG) (res string) {
	defer func() {
		if r := recover(); r != nil {
			res = fmt.Sprintf("observer panics: %v", r)
		}
	}()
	if g.N() != want.n {
		return fmt.Sprintf("N()=%d want %d", g.N(), want.n)
	}
	n := want.n
	for i := 0; i < n; i++ {
		for j := 0; j < n; j++ {
			if got := g.IsEdge(i, j); got != want.has(i, j) {
				return fmt.Sprintf("IsEdge(%d,%d)=%v want %v", i, j, got, want.has(i, j))
			}
		}
	}
	if g.M() != want.edges() {
		return fmt.Sprintf("M()=%d want %d", g.M(), want.edges())
	}
	d := g.Degrees()
	if len(d) != n {
		return fmt.Sprintf("len(Degrees())=%d want %d (%v)", len(d), n, d)
	}
	for i := 0; i < n; i++ {
		if d[i] != want.deg(i) {
			return fmt.Sprintf("Degrees()[%d]=%d want %d", i, d[i], want.deg(i))
		}
		nb := g.Neighbours(i)
		w := want.nbrs(i)
		if len(nb) != len(w) {
			return fmt.Sprintf("Neighbours(%d)=%v want %v", i, nb, w)
		}
		for k := range nb {
			if nb[k] != w[k] {
				return fmt.Sprintf("Neighbours(%d)=%v want %v", i, nb, w)
			}
		}
	}
	return ""
}

// selfConsistent checks W(g) against g's own IsEdge relation (symmetric, loop-free, M, Degrees, Neighbours).
func selfConsistent(g graph.Graph) (res string) {
	defer func() {
		if r := recover(); r != nil {
			res = fmt.Sprintf("observer panics: %v", r)
		}
	}()
	n := g.N()
	if n < 0 {
		return fmt.Sprintf("N()=%d", n)
	}
	if n > 64 {
		return selfConsistentBig(g)
	}
	m := newMG(n)
	for i := 0; i < n; i++ {
		if g.IsEdge(i, i) {
			return fmt.Sprintf("loop at %d", i)
		}
		for j := 0; j < n; j++ {
			if i != j && g.IsEdge(i, j) != g.IsEdge(j, i) {
				return fmt.Sprintf("IsEdge(%d,%d) != IsEdge(%d,%d)", i, j, j, i)
			}
			if i < j && g.IsEdge(i, j) {
				m.set(i, j, true)
			}
		}
	}
	return wellFormed(g, m)
}

func selfConsistentBig(g graph.Graph) string {
	n := g.N()
	d := g.Degrees()
	if len(d) != n {
		return fmt.Sprintf("len(Degrees())=%d want %d", len(d), n)
	}
	m := 0
	for i := 0; i < n; i++ {
		if g.IsEdge(i, i) {
			return fmt.Sprintf("loop at %d", i)
		}
		var w []int
		for j := 0; j < n; j++ {
			e := g.IsEdge(i, j)
			if e != g.IsEdge(j, i) {
				return fmt.Sprintf("asymmetric at %d,%d", i, j)
			}
			if e && i != j {
				w = append(w, j)
			}
		}
		m += len(w)
		if d[i] != len(w) {
			return fmt.Sprintf("Degrees()[%d]=%d want %d", i, d[i], len(w))
		}
		nb := g.Neighbours(i)
		if fmt.Sprint(nb) != fmt.Sprint(w) && !(len(nb) == 0 && len(w) == 0) {
			return fmt.Sprintf("Neighbours(%d)=%v want %v", i, nb, w)
		}
	}
	if g.M() != m/2 {
		return fmt.Sprintf("M()=%d want %d", g.M(), m/2)
	}
	return ""
}

// permuteMask applies the relabelling p (vertex v of g becomes p[v]) to a labelled graph mask.
func permuteMask(n int, mask uint64, p []int) uint64 {
	var out uint64
	idx := uint(0)
	for j := 1; j < n; j++ {
		for i := 0; i < j; i++ {
			if mask>>idx&1 == 1 {
				a, b := p[i], p[j]
				if a > b {
					a, b = b, a
				}
				out |= 1 << uint(b*(b-1)/2+a)
			}
			idx++
		}
	}
	return out
}

// edgePermTable returns for a vertex permutation p the table t with t[e] = index of the image of edge e.
func edgePermTable(n int, p []int) []uint8 {
	t := make([]uint8, edgeCount(n))
	idx := 0
	for j := 1; j < n; j++ {
		for i := 0; i < j; i++ {
			a, b := p[i], p[j]
			if a > b {
				a, b = b, a
			}
			t[idx] = uint8(b*(b-1)/2 + a)
			idx++
		}
	}
	return t
}

func applyEdgeTable(t []uint8, mask uint64) uint64 {
	var out uint64
	for mask != 0 {
		e := bits.TrailingZeros64(mask)
		mask &= mask - 1
		out |= 1 << t[e]
	}
	return out
}

// sigma = (0 1), tau = (0 1 ... n-1): generators of S_n.
func genSigma(n int) []int {
	p := make([]int, n)
	for i := range p {
		p[i] = i
	}
	if n >= 2 {
		p[0], p[1] = 1, 0
	}
	return p
}

func genTau(n int) []int {
	p := make([]int, n)
	for i := range p {
		p[i] = (i + 1) % n
	}
	return p
}

// orbitSweep computes the isomorphism classes of all labelled graphs on n vertices (n <= 7) by
// explicit closure under sigma and tau. Returns class id per mask and one representative per class.
func orbitSweep(n int) (class []int32, reps []uint64) {
	E := edgeCount(n)
	total := uint64(1) << uint(E)
	class = make([]int32, total)
	for i := range class {
		class[i] = -1
	}
	ts := edgePermTable(n, genSigma(n))
	tt := edgePermTable(n, genTau(n))
	var stack []uint64
	for m := uint64(0); m < total; m++ {
		if class[m] >= 0 {
			continue
		}
		id := int32(len(reps))
		reps = append(reps, m)
		class[m] = id
		stack = append(stack[:0], m)
		for len(stack) > 0 {
			x := stack[len(stack)-1]
			stack = stack[:len(stack)-1]
			for _, t := range [][]uint8{ts, tt} {
				y := applyEdgeTable(t, x)
				if class[y] < 0 {
					class[y] = id
					stack = append(stack, y)
				}
			}
		}
	}
	return class, reps
}

// allPerms returns all permutations of 0..n-1 in lexicographic order.
func allPerms(n int) [][]int {
	var out [][]int
	p := make([]int, n)
	used := make([]bool, n)
	var rec func(k int)
	rec = func(k int) {
		if k == n {
			out = append(out, append([]int(nil), p...))
			return
		}
		for v := 0; v < n; v++ {
			if !used[v] {
				used[v] = true
				p[k] = v
				rec(k + 1)
				used[v] = false
			}
		}
	}
	rec(0)
	return out
}

func isPerm(p []int, n int) bool {
	if len(p) != n {
		return false
	}
	seen := make([]bool, n)
	for _, v := range p {
		if v < 0 || v >= n || seen[v] {
			return false
		}
		seen[v] = true
	}
	return true
}

func g6(n int, mask uint64) string {
	// reference graph6 encoder for small n (n <= 62), used for human-readable samples only
	s := []byte{byte(n + 63)}
	E := edgeCount(n)
	for i := 0; i < E; i += 6 {
		var b byte
		for k := 0; k < 6; k++ {
			b <<= 1
			if i+k < E && mask>>uint(i+k)&1 == 1 {
				b |= 1
			}
		}
		s = append(s, b+63)
	}
	return string(s)
}

func sortedCopy(a []int) []int {
	b := append([]int{}, a...)
	sort.Ints(b)
	return b
}

func intsEq(a, b []int) bool {
	if len(a) != len(b) {
		return false
	}
	for i := range a {
		if a[i] != b[i] {
			return false
		}
	}
	return true
}
