package main

// C12: a built DAWG is an exact, minimal, rank-indexed index of its word set; builder histories.

import (
	"bytes"
	"encoding/json"
	"fmt"
	"sort"
	"strings"

	"github.com/Tom-Johnston/mamba/dawg"
)

type dawgCase struct {
	Words    []string `json:"words"` // sorted
	NilEmpty bool     `json:"empty_word_as_nil,omitempty"`
	Alpha    string   `json:"probe_alphabet"`
	ProbeLen int      `json:"probe_len"`
}

type dawgCaseJSON dawgCase

func (dc dawgCase) MarshalJSON() ([]byte, error) {
	x := dawgCaseJSON(dc)
	x.Words, x.Alpha = lat1encAll(dc.Words), lat1enc(dc.Alpha)
	return json.Marshal(x)
}

func (dc *dawgCase) UnmarshalJSON(b []byte) error {
	var x dawgCaseJSON
	if err := json.Unmarshal(b, &x); err != nil {
		return err
	}
	x.Words, x.Alpha = lat1decAll(x.Words), lat1dec(x.Alpha)
	*dc = dawgCase(x)
	return nil
}

func evalDawgSet(dc dawgCase) *Failure {
	mk := func(cl, what string) *Failure {
		sfx := ""
		if len(dc.Words) == 0 {
			sfx = "/empty-set"
		} else if len(dc.Words) == 1 && dc.Words[0] == "" {
			sfx = "/only-the-empty-word"
		}
		return &Failure{Class: "dawg/build/" + cl + sfx, What: fmt.Sprintf("words %q: %s", dc.Words, what), Kind: "dawg-set", Replay: dc}
	}
	var d *dawg.Dawg
	var err error
	if msg, p := try(func() { d, err = dawg.New(toBytes(dc.Words, dc.NilEmpty)) }); p {
		return mk("panic", "New panics: "+msg)
	}
	if err != nil {
		return mk("error-on-valid-input", err.Error())
	}
	probes := wordsUpTo([]byte(dc.Alpha), dc.ProbeLen)
	if cl, what := checkDawgAgainst(d, dc.Words, probes, true); cl != "" {
		return mk(cl, what)
	}
	return nil
}

type builderStep struct {
	Word  string `json:"word"`
	IsNil bool   `json:"nil,omitempty"`
}

type builderCase struct {
	ZeroValue bool          `json:"zero_value_builder,omitempty"`
	Steps     []builderStep `json:"adds"`
	// Then: after Finish the same Builder is re-initialised and builds this second word list; the second Dawg must be
	// right and the first one must still be right afterwards
	Then []string `json:"then_reuse_builder_for,omitempty"`
}

func evalBuilder(bc builderCase) *Failure {
	mk := func(cl, what string) *Failure {
		return &Failure{Class: "dawg/builder/" + cl, What: fmt.Sprintf("adds %s: %s", js(bc.Steps), what), Kind: "dawg-builder", Replay: bc}
	}
	var db *dawg.Builder
	if bc.ZeroValue {
		db = new(dawg.Builder)
	} else {
		db = new(dawg.Builder)
		db.Initialise()
	}
	var accepted []string
	haveLast := false
	last := ""
	for i, st := range bc.Steps {
		var w []byte
		if !st.IsNil {
			w = []byte(st.Word)
		}
		var err error
		if msg, p := try(func() { err = db.Add(w) }); p {
			return mk("Add-panics", fmt.Sprintf("add #%d panics: %s", i, msg))
		}
		wantErr := haveLast && bytes.Compare([]byte(last), []byte(st.Word)) >= 0
		if wantErr && err == nil {
			cl := "out-of-order-accepted"
			if last == st.Word {
				cl = "duplicate-accepted"
				if last == "" {
					cl = "duplicate-accepted/empty-word"
				}
			}
			return mk(cl, fmt.Sprintf("add #%d of %q after %q was accepted", i, st.Word, last))
		}
		if !wantErr && err != nil {
			return mk("valid-word-rejected", fmt.Sprintf("add #%d of %q after %q: %v", i, st.Word, last, err))
		}
		if err == nil {
			accepted = append(accepted, st.Word)
			haveLast = true
			last = st.Word
		}
	}
	var d *dawg.Dawg
	var err error
	if msg, p := try(func() { d, err = db.Finish() }); p {
		sfx := ""
		if len(accepted) == 0 {
			sfx = "/empty-set"
		} else if len(accepted) == 1 && accepted[0] == "" {
			sfx = "/only-the-empty-word"
		}
		return mk("Finish-panics"+sfx, msg)
	}
	if err != nil {
		return mk("Finish-error", err.Error())
	}
	probes := wordsUpTo([]byte("abc"), 3)
	if cl, what := checkDawgAgainst(d, accepted, probes, true); cl != "" {
		return mk("result/"+cl, fmt.Sprintf("accepted %q: %s", accepted, what))
	}
	if bc.Then != nil {
		var d2 *dawg.Dawg
		if msg, p := try(func() {
			db.Initialise()
			for _, w := range bc.Then {
				if e := db.Add([]byte(w)); e != nil {
					err = e
					return
				}
			}
			d2, err = db.Finish()
		}); p || err != nil {
			return mk("reuse/second-build-fails", fmt.Sprint(msg, err))
		}
		if cl, what := checkDawgAgainst(d2, bc.Then, probes, true); cl != "" {
			return mk("reuse/second-result/"+cl, fmt.Sprintf("second word list %q: %s", bc.Then, what))
		}
		if cl, what := checkDawgAgainst(d, accepted, probes, true); cl != "" {
			return mk("reuse/first-dawg-changed/"+cl, fmt.Sprintf("after the builder built %q, the first Dawg (%q): %s", bc.Then, accepted, what))
		}
		// both survive an encode/decode round trip
		for i, pair := range []struct {
			d  *dawg.Dawg
			ws []string
		}{{d, accepted}, {d2, bc.Then}} {
			var t dawg.Dawg
			if msg, p := try(func() {
				var enc []byte
				enc, err = pair.d.GobEncode()
				if err == nil {
					err = t.GobDecode(enc)
				}
			}); p || err != nil {
				return mk("reuse/encode-decode-fails", fmt.Sprint(msg, err))
			}
			if cl, what := checkDawgAgainst(&t, pair.ws, probes, true); cl != "" {
				return mk("reuse/decoded/"+cl, fmt.Sprintf("Dawg %d of a reused builder (%q) after GobEncode/GobDecode: %s", i+1, pair.ws, what))
			}
		}
	}
	return nil
}

func runC12(c *Ctx) {
	c.Level = "exploration"
	c.Rule = "every subset of the 15 words of length <=3 over {a,b} and of the 13 words of length <=2 over {0x00,'m',0xff} (quick: also every subset of size <=5 of the 31 binary words of length <=4) built with New: Lookup on every probe string of length <= maxlen+1 over the alphabet plus a foreign letter, NumberOfWords, accepted language read from the node graph, node count = number of distinct right languages (Myhill-Nerode); families with root / inner branching 0..80 (256 thorough), with and without the empty word; every Add sequence of length <=5 over the 7 words of length <=2 (plus nil) through a Builder, error exactly for words not above the last accepted word, result = automaton of the accepted words; non-trivial = word set with >= 2 words / Add sequence with a rejected step"
	u3 := wordsUpTo([]byte("ab"), 3)
	total := int64(1) << uint(len(u3))
	c.parFor(total, 64, func(lo, hi int64) {
		for s := lo; s < hi; s++ {
			ws := subsetOf(u3, uint64(s))
			dc := dawgCase{Words: ws, Alpha: "abc", ProbeLen: 4}
			c.Check(func() *Failure { return evalDawgSet(dc) })
			if len(ws) >= 2 {
				c.Nontrivial(1)
			}
			if len(ws) > 0 && ws[0] == "" && s%4 == 1 {
				dc2 := dc
				dc2.NilEmpty = true
				c.Check(func() *Failure { return evalDawgSet(dc2) })
			}
		}
	})
	c.SetCount("binary_word_sets_len<=3", total)
	ub := wordsUpTo([]byte{0x00, 'm', 0xff}, 2)
	total = int64(1) << uint(len(ub))
	c.parFor(total, 64, func(lo, hi int64) {
		for s := lo; s < hi; s++ {
			ws := subsetOf(ub, uint64(s))
			dc := dawgCase{Words: ws, Alpha: "\x00m\xffz", ProbeLen: 3}
			c.Check(func() *Failure { return evalDawgSet(dc) })
			if len(ws) >= 2 {
				c.Nontrivial(1)
			}
		}
	})
	c.SetCount("byte_alphabet_word_sets_len<=2", total)
	// alphabets whose letters agree in their low bits (0x21/0x61/0xA1 agree mod 64; 0x05/0x85 differ in the top bit
	// only, 0x06 in the low bits): hashing or masking labels must not identify them
	for _, al := range [][]byte{{0x21, 0x61, 0xA1}, {0x05, 0x85, 0x06}} {
		al := al
		ux := wordsUpTo(al, 2)
		tot := int64(1) << uint(len(ux))
		c.parFor(tot, 64, func(lo, hi int64) {
			for s := lo; s < hi; s++ {
				ws := subsetOf(ux, uint64(s))
				dc := dawgCase{Words: ws, Alpha: string(al) + "z", ProbeLen: 3}
				c.Check(func() *Failure { return evalDawgSet(dc) })
				if len(ws) >= 2 {
					c.Nontrivial(1)
				}
			}
		})
		c.Count("colliding_label_alphabet_word_sets_len<=2", tot)
	}
	{
		maxSize := 5
		if c.Thorough() {
			maxSize = 7
		}
		u4 := wordsUpTo([]byte("ab"), 4)
		var sets [][]string
		var rec func(start int, cur []string)
		rec = func(start int, cur []string) {
			sets = append(sets, append([]string{}, cur...))
			if len(cur) == maxSize {
				return
			}
			for i := start; i < len(u4); i++ {
				rec(i+1, append(cur, u4[i]))
			}
		}
		rec(0, nil)
		c.parFor(int64(len(sets)), 256, func(lo, hi int64) {
			for _, ws := range sets[lo:hi] {
				dc := dawgCase{Words: ws, Alpha: "abc", ProbeLen: 5}
				c.Check(func() *Failure { return evalDawgSet(dc) })
				c.Nontrivial(1)
			}
		})
		c.SetCount(fmt.Sprintf("binary_word_sets_len<=4_size<=%d", maxSize), int64(len(sets)))
	}
	if c.Thorough() {
		// ternary alphabet: every set of at most 5 of the 40 words of length <= 3 over {a,b,c}
		u3c := wordsUpTo([]byte("abc"), 3)
		var sets [][]string
		var rec func(start int, cur []string)
		rec = func(start int, cur []string) {
			sets = append(sets, append([]string{}, cur...))
			if len(cur) == 5 {
				return
			}
			for i := start; i < len(u3c); i++ {
				rec(i+1, append(cur, u3c[i]))
			}
		}
		rec(0, nil)
		c.parFor(int64(len(sets)), 256, func(lo, hi int64) {
			for _, ws := range sets[lo:hi] {
				dc := dawgCase{Words: ws, Alpha: "abcd", ProbeLen: 4}
				c.Check(func() *Failure { return evalDawgSet(dc) })
				c.Nontrivial(1)
			}
		})
		c.SetCount("ternary_word_sets_len<=3_size<=5", int64(len(sets)))
		c.Rule += "; THOROUGH: every subset of size <= 7 of the 31 binary words of length <= 4 and every set of at most 5 of the 40 words of length <= 3 over {a,b,c}"
	}
	// wide nodes: a small alphabet never produces a node with many links, so implementations that switch
	// strategy above a link-count threshold (binary search, tables) need families with branching up to 256
	maxB := 80
	if c.Thorough() {
		maxB = 256
	}
	var wide []dawgCase
	for b := 0; b <= maxB; b++ {
		letters := make([]byte, b)
		for i := range letters {
			letters[i] = byte(i)
			if maxB < 200 {
				letters[i] = byte(33 + i) // printable range for readable replay files
			}
		}
		for variant := 0; variant < 6; variant++ {
			var ws []string
			if variant&1 == 1 {
				ws = append(ws, "")
			}
			for i, l := range letters {
				ws = append(ws, string([]byte{l}))
				switch variant >> 1 {
				case 1: // every third letter continues with up to 12 second letters (inner nodes that are final and wide)
					if i%3 == 0 {
						for j := 0; j < len(letters) && j < 12; j++ {
							ws = append(ws, string([]byte{l, letters[j]}))
						}
					}
				case 2: // the last letter continues with every letter (wide inner node reached through the last link)
					if i == len(letters)-1 {
						for j := range letters {
							ws = append(ws, string([]byte{l, letters[j]}))
						}
					}
				}
			}
			sort.Strings(ws)
			alpha := string(letters)
			if len(alpha) > 24 {
				alpha = alpha[:8] + alpha[len(alpha)/2:len(alpha)/2+8] + alpha[len(alpha)-8:]
			}
			wide = append(wide, dawgCase{Words: ws, Alpha: alpha + "~", ProbeLen: 2})
		}
	}
	c.parFor(int64(len(wide)), 4, func(lo, hi int64) {
		for _, dc := range wide[lo:hi] {
			dc := dc
			c.Check(func() *Failure { return evalDawgSet(dc) })
			c.Nontrivial(1)
		}
	})
	// two-level families: each first letter x carries a set S_x of second letters taken from a menu of sets that agree
	// on their first letters and differ late; minimal automaton = one node per distinct S_x (hash / prefix-keyed
	// registers are exercised by equal sets separated by a near-equal one)
	for _, L := range []int{3, 5, 6, 9, 17, 40} {
		letters := make([]byte, L)
		for i := range letters {
			letters[i] = byte('a' + i)
			if L > 26 {
				letters[i] = byte(40 + i)
			}
		}
		menu := [][]byte{letters, letters[:L-1], letters[1:], append(append([]byte{}, letters[:L-2]...), letters[L-1])}
		firsts := []byte{'1', '2', '3', '4'}
		for code := 0; code < 256; code++ {
			var ws []string
			x := code
			for _, f := range firsts {
				for _, l := range menu[x%4] {
					ws = append(ws, string([]byte{f, l}))
				}
				x /= 4
			}
			sort.Strings(ws)
			dc := dawgCase{Words: ws, Alpha: string(firsts) + string(letters[:2]) + string(letters[L-2:]), ProbeLen: 2}
			wide = append(wide, dc)
		}
	}
	c.parFor(int64(len(wide)), 4, func(lo, hi int64) {
		for _, dc := range wide[lo:hi] {
			dc := dc
			c.Check(func() *Failure { return evalDawgSet(dc) })
		}
	})
	c.SetCount("wide_node_word_sets", int64(len(wide)))
	// builder histories
	u2 := wordsUpTo([]byte("ab"), 2)
	var alphabet []builderStep
	for _, w := range u2 {
		alphabet = append(alphabet, builderStep{Word: w})
	}
	alphabet = append(alphabet, builderStep{Word: "", IsNil: true})
	maxLen := 6
	if c.Thorough() {
		maxLen = 7
	}
	var seqs [][]builderStep
	var recb func(cur []builderStep)
	recb = func(cur []builderStep) {
		seqs = append(seqs, append([]builderStep{}, cur...))
		if len(cur) == maxLen {
			return
		}
		for _, a := range alphabet {
			recb(append(cur, a))
		}
	}
	recb(nil)
	c.parFor(int64(len(seqs)), 256, func(lo, hi int64) {
		for i := lo; i < hi; i++ {
			bc := builderCase{Steps: seqs[i], ZeroValue: i%2 == 1}
			c.Check(func() *Failure { return evalBuilder(bc) })
			if len(bc.Steps) <= 5 {
				c.Check(func() *Failure { return evalNewList(bc) })
			}
			c.Trans(int64(len(bc.Steps)) + 1)
			if len(bc.Steps) >= 2 {
				c.Nontrivial(1)
			}
		}
	})
	c.SetCount("builder_add_sequences", int64(len(seqs)))
	// builder reuse: every pair of word sets over the 7 words of length <= 2 (first built through Add, then the same
	// Builder re-initialised for the second)
	{
		u2s := wordsUpTo([]byte("ab"), 2)
		nsub := int64(1) << uint(len(u2s))
		c.parFor(nsub*nsub, 256, func(lo, hi int64) {
			for x := lo; x < hi; x++ {
				first, second := subsetOf(u2s, uint64(x/nsub)), subsetOf(u2s, uint64(x%nsub))
				var steps []builderStep
				for _, w := range first {
					steps = append(steps, builderStep{Word: w})
				}
				if second == nil {
					second = []string{}
				}
				bc := builderCase{Steps: steps, Then: second, ZeroValue: x%2 == 1}
				c.Check(func() *Failure { return evalBuilder(bc) })
				c.Nontrivial(1)
			}
		})
		c.SetCount("builder_reuse_pairs", nsub*nsub)
	}
	// automata with hundreds of nodes (registers that switch strategy at a size): two or three long words sharing
	// tails, and a dictionary-like set plus words whose tails occur in it
	{
		rep := func(u string, k int) string { return strings.Repeat(u, k) }
		var big []dawgCase
		for _, k := range []int{200, 254, 255, 256, 257, 300} {
			for _, j := range []int{k - 20, k - 1, k} {
				big = append(big, dawgCase{Words: dedupSorted([]string{"a" + rep("z", k), "b" + rep("z", j)}), Alpha: "abz", ProbeLen: 2})
				big = append(big, dawgCase{Words: dedupSorted([]string{"a" + rep("z", k), "b" + rep("z", j), "c" + rep("y", 5) + rep("z", j/2)}), Alpha: "abz", ProbeLen: 2})
			}
		}
		var dict []string
		for a := 0; a < 4; a++ {
			for b := 0; b < 4; b++ {
				for cc := 0; cc < 4; cc++ {
					for d := 0; d < 4; d++ {
						if (a*7+b*5+cc*3+d)%8 != 3 {
							dict = append(dict, string([]byte{byte('a' + a), byte('e' + b), byte('i' + cc), byte('m' + d)}))
						}
					}
				}
			}
		}
		big = append(big, dawgCase{Words: dedupSorted(append(append([]string{}, dict...), "yqrstuvwx", "ztuvwx", "zzeim")), Alpha: "aeimz", ProbeLen: 2})
		big = append(big, dawgCase{Words: dedupSorted(append(append([]string{}, dict...), "y"+rep("q", 300), "z"+rep("q", 250))), Alpha: "aeimz", ProbeLen: 2})
		c.parFor(int64(len(big)), 1, func(lo, hi int64) {
			for _, dc := range big[lo:hi] {
				dc := dc
				c.Check(func() *Failure { return evalDawgSet(dc) })
				c.Nontrivial(1)
			}
		})
		c.SetCount("large_automaton_word_sets", int64(len(big)))
	}
	c.Sample("word-set", dawgCase{Words: []string{"", "ab", "abb", "b"}, Alpha: "abc", ProbeLen: 4})
	c.Sample("builder", builderCase{Steps: []builderStep{{Word: "a"}, {Word: "a"}, {Word: "", IsNil: true}, {Word: "ab"}}})
	c.Assume("the caller does not modify a word slice after passing it to Add")
}

// evalNewList: the same lists handed to New in one go: an error exactly when the list is not strictly increasing,
// and otherwise the automaton of the list.
func evalNewList(bc builderCase) *Failure {
	mk := func(cl, what string) *Failure {
		return &Failure{Class: "dawg/New/" + cl, What: fmt.Sprintf("New(%s): %s", js(bc.Steps), what), Kind: "dawg-new-list", Replay: bc}
	}
	var list [][]byte
	var words []string
	valid := true
	dup := false
	for i, st := range bc.Steps {
		if st.IsNil {
			list = append(list, nil)
		} else {
			list = append(list, []byte(st.Word))
		}
		if i > 0 {
			if c := bytes.Compare([]byte(bc.Steps[i-1].Word), []byte(st.Word)); c >= 0 {
				valid = false
				if c == 0 {
					dup = true
				}
			}
		}
		words = append(words, st.Word)
	}
	var d *dawg.Dawg
	var err error
	if msg, p := try(func() { d, err = dawg.New(list) }); p {
		return mk("panics", msg)
	}
	if !valid {
		if err == nil {
			if dup {
				return mk("duplicate-accepted", fmt.Sprintf("no error; NumberOfWords = %d", d.NumberOfWords()))
			}
			return mk("out-of-order-accepted", "no error")
		}
		return nil
	}
	if err != nil {
		return mk("valid-list-rejected", err.Error())
	}
	if cl, what := checkDawgAgainst(d, words, wordsUpTo([]byte("abc"), 3), true); cl != "" {
		return mk("result/"+cl, what)
	}
	return nil
}

func replayC12(kind string, raw json.RawMessage) *Failure {
	switch kind {
	case "dawg-new-list":
		var bc builderCase
		json.Unmarshal(raw, &bc)
		return evalNewList(bc)
	case "dawg-set":
		var dc dawgCase
		json.Unmarshal(raw, &dc)
		return evalDawgSet(dc)
	case "dawg-builder":
		var bc builderCase
		json.Unmarshal(raw, &bc)
		return evalBuilder(bc)
	}
	return &Failure{Class: "replay/unsupported-kind", What: kind}
}

func init() { register("C12", runC12, replayC12) }
