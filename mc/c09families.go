package main

// C09 on graphs with 20..200 vertices whose invariants are known from their construction (complete, complete
// bipartite / multipartite graphs, cycles, disjoint cliques, hypercubes): clique and independence number,
// chromatic number with a proper witness, degeneracy with a valid order, the number of maximal cliques, and
// IsKColorable around the chromatic number.

import (
	"fmt"
	"sort"
	"time"

	"github.com/Tom-Johnston/mamba/graph"
)

type c09FamCase struct {
	Family string `json:"family"`
	P      []int  `json:"params"`
	Rep    string `json:"rep"`
	Shift  int    `json:"relabel_rotation"`
}

type c09Known struct {
	g                                 *EG
	omega, alpha, chi, degen, cliques int
}

func buildC09Fam(fc c09FamCase) *c09Known {
	k := &c09Known{g: &EG{}}
	g := k.g
	switch fc.Family {
	case "complete":
		n := fc.P[0]
		for i := 0; i < n; i++ {
			for j := 0; j < i; j++ {
				egAdd(g, j, i)
			}
		}
		g.N = n
		k.omega, k.alpha, k.chi, k.degen, k.cliques = n, 1, n, n-1, 1
	case "multipartite":
		n, mx, prod := 0, 0, 1
		var part []int
		for pi, p := range fc.P {
			for i := 0; i < p; i++ {
				part = append(part, pi)
			}
			n += p
			if p > mx {
				mx = p
			}
			prod *= p
		}
		for i := 0; i < n; i++ {
			for j := 0; j < i; j++ {
				if part[i] != part[j] {
					egAdd(g, j, i)
				}
			}
		}
		g.N = n
		k.omega, k.alpha, k.chi, k.degen, k.cliques = len(fc.P), mx, len(fc.P), n-mx, prod
	case "cycle":
		n := fc.P[0]
		for i := 0; i < n; i++ {
			egAdd(g, i, (i+1)%n)
		}
		g.N = n
		k.omega, k.alpha, k.chi, k.degen, k.cliques = 2, n/2, 2+n%2, 2, n
	case "cliques":
		m, s := fc.P[0], fc.P[1]
		for c := 0; c < m; c++ {
			for i := 0; i < s; i++ {
				for j := 0; j < i; j++ {
					egAdd(g, c*s+j, c*s+i)
				}
			}
		}
		g.N = m * s
		k.omega, k.alpha, k.chi, k.degen, k.cliques = s, m, s, s-1, m
	case "hypercube":
		d := fc.P[0]
		for v := 0; v < 1<<uint(d); v++ {
			for b := 0; b < d; b++ {
				if v>>uint(b)&1 == 0 {
					egAdd(g, v, v|1<<uint(b))
				}
			}
		}
		g.N = 1 << uint(d)
		k.omega, k.alpha, k.chi, k.degen, k.cliques = 2, 1<<uint(d-1), 2, d, d<<uint(d-1)
	}
	g.norm()
	if fc.Shift != 0 {
		p := make([]int, g.N)
		for i := range p {
			p[i] = (i*7 + fc.Shift) % g.N
			if g.N%7 == 0 {
				p[i] = (i + fc.Shift) % g.N
			}
		}
		k.g = egRelabel(g, p)
	}
	return k
}

func evalC09Fam(fc c09FamCase) *Failure {
	kn := buildC09Fam(fc)
	g := kn.g
	n := g.N
	mk := func(fn, cl, what string) *Failure {
		return &Failure{Class: "invariants/" + fn + "/" + cl + "/family", What: fmt.Sprintf("%s on %s %s%v shift %d (n=%d): %s", fn, fc.Rep, fc.Family, fc.P, fc.Shift, n, what), Kind: "c09-family", Replay: fc}
	}
	lg := libGraphFromEG(g, fc.Rep)
	var f *Failure
	msg, p := try(func() {
		if got := graph.CliqueNumber(lg); got != kn.omega {
			f = mk("CliqueNumber", "wrong-value", fmt.Sprintf("%d want %d", got, kn.omega))
			return
		}
		if got := graph.IndependenceNumber(lg); got != kn.alpha {
			f = mk("IndependenceNumber", "wrong-value", fmt.Sprintf("%d want %d", got, kn.alpha))
			return
		}
		chi, col := graph.ChromaticNumber(lg)
		if chi != kn.chi {
			f = mk("ChromaticNumber", "wrong-value", fmt.Sprintf("%d want %d", chi, kn.chi))
			return
		}
		if !usesExactly(col, chi) || !egProper(g, col) {
			f = mk("ChromaticNumber", "witness-not-a-proper-colouring", fmt.Sprint(col))
			return
		}
		for k := kn.chi - 1; k <= kn.chi+1; k++ {
			ok, col := graph.IsKColorable(lg, k)
			if ok != (k >= kn.chi) {
				f = mk("IsKColorable", "wrong-value", fmt.Sprintf("k=%d: %v", k, ok))
				return
			}
			if ok && (len(col) != n || !egProper(g, col) || maxOf(col) >= k) {
				f = mk("IsKColorable", "witness-not-a-proper-colouring", fmt.Sprintf("k=%d", k))
				return
			}
		}
		d, order := graph.Degeneracy(lg)
		if d != kn.degen {
			f = mk("Degeneracy", "wrong-value", fmt.Sprintf("%d want %d", d, kn.degen))
			return
		}
		if !isPerm(order, n) {
			f = mk("Degeneracy", "order-not-a-permutation", fmt.Sprint(order))
			return
		}
		ch := make(chan []int, 256)
		go func() {
			defer func() { recover() }()
			graph.AllMaximalCliques(lg, ch)
		}()
		cnt := 0
		seen := map[string]bool{}
		nb := g.adjacency()
		adj := func(a, b int) bool {
			i := sort.SearchInts(nb[a], b)
			return i < len(nb[a]) && nb[a][i] == b
		}
		for cl := range ch {
			x := append([]int{}, cl...)
			sort.Ints(x)
			key := fmt.Sprint(x)
			if seen[key] {
				f = mk("AllMaximalCliques", "clique-listed-twice", key)
			}
			seen[key] = true
			for i := range x {
				for j := 0; j < i; j++ {
					if !adj(x[i], x[j]) {
						f = mk("AllMaximalCliques", "not-a-clique", key)
					}
				}
			}
			cnt++
		}
		if f == nil && cnt != kn.cliques {
			f = mk("AllMaximalCliques", "wrong-number-of-cliques", fmt.Sprintf("%d maximal cliques listed, there are %d", cnt, kn.cliques))
		}
	})
	if p {
		return mk("any", "panic", msg)
	}
	return f
}

func c09Families(c *Ctx) {
	var cases []c09FamCase
	add := func(fam string, p ...int) {
		for si, sh := range []int{0, 3} {
			rep := "dense"
			if si == 1 {
				rep = "sparse"
			}
			cases = append(cases, c09FamCase{Family: fam, P: p, Rep: rep, Shift: sh})
		}
	}
	for _, n := range []int{20, 31, 32, 33, 48} {
		add("complete", n)
	}
	for _, ab := range [][]int{{10, 10}, {16, 17}, {3, 40}, {32, 33}, {4, 4, 4, 4}, {3, 5, 7, 9}, {2, 2, 2, 2, 2, 2, 2, 2}, {1, 1, 30}} {
		add("multipartite", ab...)
	}
	for _, n := range []int{20, 21, 32, 33} {
		add("cycle", n)
	}
	for _, ms := range [][2]int{{5, 4}, {8, 4}, {3, 11}, {16, 2}, {2, 17}} {
		add("cliques", ms[0], ms[1])
	}
	add("hypercube", 4)
	add("hypercube", 5)
	if c.Thorough() {
		add("complete", 64)
		add("complete", 65)
		add("multipartite", 64, 65)
		add("multipartite", 5, 5, 5, 5, 5, 5)
		add("cycle", 44)
		add("cycle", 45)
		add("cliques", 6, 5)
		add("hypercube", 6)
	}
	c.parFor(int64(len(cases)), 1, func(lo, hi int64) {
		for _, fc := range cases[lo:hi] {
			fc := fc
			t0 := time.Now()
			c.CheckTimed(600*time.Second, func() *Failure { return evalC09Fam(fc) }, func() *Failure {
				return &Failure{Class: "invariants/any/does-not-terminate/family", What: fmt.Sprintf("%s %s%v still running after 600 s", fc.Rep, fc.Family, fc.P), Kind: "c09-family", Replay: fc, NoRepro: true}
			})
			if d := time.Since(t0); d > 5*time.Second {
				c.Note("slow family case %v: %v", fc, d)
			}
			c.Nontrivial(1)
		}
	})
	c.SetCount("families_with_known_invariants_cases", int64(len(cases)))
}

// c09Irregular: fixed pseudo-random graphs with 10..26 vertices (an LCG per graph; a deterministic family, not a
// sample): no reference values at this size, but the results must be consistent with each other and with their
// witnesses - the colouring returned with the chromatic number is proper and uses exactly that many colours,
// IsKColorable agrees with it at chi-1, chi and chi+1, clique number <= chromatic number, the degeneracy order is
// valid and chi <= degeneracy+1, every listed maximal clique is a maximal clique and the largest has CliqueNumber vertices.
type c09IrrCase struct {
	N    int    `json:"n"`
	P    int    `json:"edge_probability_percent"`
	Seed uint64 `json:"seed"`
	Rep  string `json:"rep"`
}

func buildIrr(ic c09IrrCase) *EG {
	g := &EG{N: ic.N}
	x := ic.Seed*2862933555777941757 + 3037000493
	for j := 1; j < ic.N; j++ {
		for i := 0; i < j; i++ {
			x = x*6364136223846793005 + 1442695040888963407
			if int((x>>33)%100) < ic.P {
				g.Edges = append(g.Edges, [2]int{i, j})
			}
		}
	}
	return g
}

func evalC09Irr(ic c09IrrCase) *Failure {
	g := buildIrr(ic)
	n := g.N
	mk := func(fn, cl, what string) *Failure {
		return &Failure{Class: "invariants/" + fn + "/" + cl + "/irregular", What: fmt.Sprintf("%s on %s lcg-graph(n=%d, p=%d%%, seed %d): %s", fn, ic.Rep, n, ic.P, ic.Seed, what), Kind: "c09-irregular", Replay: ic}
	}
	lg := libGraphFromEG(g, ic.Rep)
	nb := g.adjacency()
	adj := func(a, b int) bool {
		i := sort.SearchInts(nb[a], b)
		return i < len(nb[a]) && nb[a][i] == b
	}
	var f *Failure
	msg, p := try(func() {
		chi, col := graph.ChromaticNumber(lg)
		if !egProper(g, col) {
			f = mk("ChromaticNumber", "witness-not-a-proper-colouring", fmt.Sprint(col))
			return
		}
		if !usesExactly(col, chi) {
			f = mk("ChromaticNumber", "witness-does-not-use-the-reported-number-of-colours", fmt.Sprintf("reported %d, witness %v", chi, col))
			return
		}
		for k := chi - 1; k <= chi+1; k++ {
			ok, kc := graph.IsKColorable(lg, k)
			if ok != (k >= chi) {
				f = mk("IsKColorable", "disagrees-with-ChromaticNumber", fmt.Sprintf("ChromaticNumber = %d but IsKColorable(%d) = %v", chi, k, ok))
				return
			}
			if ok && (!egProper(g, kc) || maxOf(kc) >= k) {
				f = mk("IsKColorable", "witness-not-a-proper-colouring", fmt.Sprintf("k=%d", k))
				return
			}
		}
		w := graph.CliqueNumber(lg)
		if w > chi {
			f = mk("CliqueNumber", "exceeds-chromatic-number", fmt.Sprintf("clique number %d, chromatic number %d", w, chi))
			return
		}
		d, order := graph.Degeneracy(lg)
		if !isPerm(order, n) {
			f = mk("Degeneracy", "order-not-a-permutation", fmt.Sprint(order))
			return
		}
		if chi > d+1 || w > d+1 {
			f = mk("Degeneracy", "inconsistent-with-colouring", fmt.Sprintf("degeneracy %d, chromatic number %d, clique number %d", d, chi, w))
			return
		}
		ch := make(chan []int, 256)
		go func() {
			defer func() { recover() }()
			graph.AllMaximalCliques(lg, ch)
		}()
		best := 0
		for cl := range ch {
			if f != nil {
				continue
			}
			in := map[int]bool{}
			for _, v := range cl {
				in[v] = true
			}
			for i := range cl {
				for j := 0; j < i; j++ {
					if !adj(cl[i], cl[j]) {
						f = mk("AllMaximalCliques", "not-a-clique", fmt.Sprint(cl))
					}
				}
			}
			for v := 0; v < n && f == nil; v++ {
				if in[v] {
					continue
				}
				all := true
				for _, u := range cl {
					if !adj(u, v) {
						all = false
						break
					}
				}
				if all {
					f = mk("AllMaximalCliques", "not-maximal", fmt.Sprintf("%v can be extended by %d", cl, v))
				}
			}
			if len(cl) > best {
				best = len(cl)
			}
		}
		if f == nil && best != w {
			f = mk("CliqueNumber", "differs-from-largest-listed-clique", fmt.Sprintf("CliqueNumber = %d, largest maximal clique listed has %d vertices", w, best))
		}
	})
	if p {
		return mk("any", "panic", msg)
	}
	return f
}

func c09Irregular(c *Ctx) {
	var cases []c09IrrCase
	seeds := 60
	if c.Thorough() {
		seeds = 400
	}
	for n := 10; n <= 26; n++ {
		for _, p := range []int{20, 35, 50, 65} {
			if n > 22 && p > 50 {
				continue
			}
			for s := 0; s < seeds; s++ {
				rep := "dense"
				if s%2 == 1 {
					rep = "sparse"
				}
				cases = append(cases, c09IrrCase{N: n, P: p, Seed: uint64(n*1000 + p*10 + s), Rep: rep})
			}
		}
	}
	c.parFor(int64(len(cases)), 4, func(lo, hi int64) {
		for _, ic := range cases[lo:hi] {
			ic := ic
			t0 := time.Now()
			c.CheckTimed(600*time.Second, func() *Failure { return evalC09Irr(ic) }, func() *Failure {
				return &Failure{Class: "invariants/any/does-not-terminate/irregular", What: fmt.Sprintf("%v still running after 600 s", ic), Kind: "c09-irregular", Replay: ic, NoRepro: true}
			})
			if d := time.Since(t0); d > 5*time.Second {
				c.Note("slow irregular case %v: %v", ic, d)
			}
			c.Nontrivial(1)
		}
	})
	c.SetCount("irregular_consistency_cases", int64(len(cases)))
}
