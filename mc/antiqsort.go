package main

// McIlroy's "A Killer Adversary for Quicksort" run against a port (with a comparison callback) of the
// introsort in ints/int_sort.go. It only *generates* concrete int slices; those are then sorted by the
// real ints.Sort. If the real code makes the same comparisons, the input drives it into the heap-sort
// fallback; if it does not, the input is simply one more test vector (no oracle depends on the port).

type aqs struct {
	val       []int
	gas       int
	nsolid    int
	candidate int
	data      []int // item ids being permuted
	skipHeap  bool  // leave the ranges that reach the heap-sort fallback untouched (their items stay gas)
}

func (q *aqs) cmp(x, y int) int {
	if q.val[x] == q.gas && q.val[y] == q.gas {
		if x == q.candidate {
			q.val[x] = q.nsolid
		} else {
			q.val[y] = q.nsolid
		}
		q.nsolid++
	}
	if q.val[x] == q.gas {
		q.candidate = x
	} else if q.val[y] == q.gas {
		q.candidate = y
	}
	return q.val[x] - q.val[y]
}

func (q *aqs) lt(i, j int) bool { return q.cmp(q.data[i], q.data[j]) < 0 }
func (q *aqs) le(i, j int) bool { return q.cmp(q.data[i], q.data[j]) <= 0 }
func (q *aqs) swap(i, j int)    { q.data[i], q.data[j] = q.data[j], q.data[i] }

func (q *aqs) insertionSort(a, b int) {
	for i := a + 1; i < b; i++ {
		for j := i; j > a && q.lt(j, j-1); j-- {
			q.swap(j, j-1)
		}
	}
}

func (q *aqs) siftDown(lo, hi, first int) {
	root := lo
	for {
		child := 2*root + 1
		if child >= hi {
			break
		}
		if child+1 < hi && q.lt(first+child, first+child+1) {
			child++
		}
		if !q.lt(first+root, first+child) {
			return
		}
		q.swap(first+root, first+child)
		root = child
	}
}

func (q *aqs) heapSort(a, b int) {
	first, lo, hi := a, 0, b-a
	for i := (hi - 1) / 2; i >= 0; i-- {
		q.siftDown(i, hi, first)
	}
	for i := hi - 1; i >= 0; i-- {
		q.swap(first, first+i)
		q.siftDown(lo, i, first)
	}
}

func (q *aqs) medianOfThree(m1, m0, m2 int) {
	if q.lt(m1, m0) {
		q.swap(m1, m0)
	}
	if q.lt(m2, m1) {
		q.swap(m2, m1)
		if q.lt(m1, m0) {
			q.swap(m1, m0)
		}
	}
}

func (q *aqs) doPivot(lo, hi int) (int, int) {
	m := int(uint(lo+hi) >> 1)
	if hi-lo > 40 {
		s := (hi - lo) / 8
		q.medianOfThree(lo, lo+s, lo+2*s)
		q.medianOfThree(m, m-s, m+s)
		q.medianOfThree(hi-1, hi-1-s, hi-1-2*s)
	}
	q.medianOfThree(lo, m, hi-1)
	pivot := lo
	a, c := lo+1, hi-1
	for ; a < c && q.lt(a, pivot); a++ {
	}
	b := a
	for {
		for ; b < c && q.le(b, pivot); b++ {
		}
		for ; b < c && q.lt(pivot, c-1); c-- {
		}
		if b >= c {
			break
		}
		q.swap(b, c-1)
		b++
		c--
	}
	protect := hi-c < 5
	if !protect && hi-c < (hi-lo)/4 {
		dups := 0
		if q.le(hi-1, pivot) {
			q.swap(c, hi-1)
			c++
			dups++
		}
		if q.le(pivot, b-1) {
			b--
			dups++
		}
		if q.le(pivot, m) {
			q.swap(m, b-1)
			b--
			dups++
		}
		protect = dups > 1
	}
	if protect {
		for {
			for ; a < b && q.le(pivot, b-1); b-- {
			}
			for ; a < b && q.lt(a, pivot); a++ {
			}
			if a >= b {
				break
			}
			q.swap(a, b-1)
			a++
			b--
		}
	}
	q.swap(pivot, b-1)
	return b - 1, c
}

func (q *aqs) quickSort(a, b, maxDepth int, heapHits *int) {
	for b-a > 12 {
		if maxDepth == 0 {
			*heapHits++
			if !q.skipHeap {
				q.heapSort(a, b)
			}
			return
		}
		maxDepth--
		mlo, mhi := q.doPivot(a, b)
		if mlo-a < b-mhi {
			q.quickSort(a, mlo, maxDepth, heapHits)
			a = mhi
		} else {
			q.quickSort(mhi, b, maxDepth, heapHits)
			b = mlo
		}
	}
	if b-a > 1 {
		for i := a + 6; i < b; i++ {
			if q.lt(i, i-6) {
				q.swap(i, i-6)
			}
		}
		q.insertionSort(a, b)
	}
}

var antiQuicksortHeapHits int

func antiQuicksort(n int, fill int) []int {
	q := &aqs{val: make([]int, n), gas: n, data: make([]int, n), skipHeap: fill >= 0}
	if fill < 0 {
		fill = 0
	}
	for i := range q.val {
		q.val[i] = q.gas
		q.data[i] = i
	}
	depth := 0
	for i := n; i > 0; i >>= 1 {
		depth++
	}
	hits := 0
	q.quickSort(0, n, depth*2, &hits)
	antiQuicksortHeapHits += hits
	// The values still "gas" were never compared with each other and are larger than every frozen one, so their
	// relative order is free. With skipHeap they are (mostly) the content of the ranges handed to heapSort, so the
	// fill decides what the heap-sort fallback of the real code gets to sort.
	out := make([]int, n)
	var gasPos []int
	for i, v := range q.val {
		if v == q.gas {
			gasPos = append(gasPos, i)
		} else {
			out[i] = v
		}
	}
	for k, i := range gasPos {
		g := len(gasPos)
		switch fill {
		case 0:
			out[i] = q.nsolid + k
		case 1:
			out[i] = q.nsolid + g - k
		case 2:
			out[i] = q.nsolid
		case 3:
			if k < g/2 {
				out[i] = q.nsolid + k
			} else {
				out[i] = q.nsolid + g - k
			}
		case 4:
			out[i] = q.nsolid + k%3
		default:
			out[i] = q.nsolid + (k*(7919+2*fill)+13*fill)%g
		}
	}
	return out
}
