package main

import (
	"context"
	"encoding/json"
	"flag"
	"fmt"
	"os"
	"os/exec"
	"sort"
	"strings"
	"sync/atomic"
	"time"
)

type propCheck struct {
	run    func(c *Ctx)
	replay func(kind string, raw json.RawMessage) *Failure
}

var registry = map[string]*propCheck{}

func register(id string, run func(c *Ctx), replay func(kind string, raw json.RawMessage) *Failure) {
	registry[id] = &propCheck{run: run, replay: replay}
}

func main() {
	if len(os.Args) < 2 {
		usage()
	}
	id := os.Args[1]
	fs := flag.NewFlagSet("mc", flag.ExitOnError)
	tier := fs.String("tier", "quick", "quick|thorough")
	replay := fs.String("replay", "", "replay file")
	fs.Parse(os.Args[2:])
	if t := os.Getenv("VERIF_TIER"); t != "" && *tier == "" {
		*tier = t
	}
	if id == "aux" {
		auxMain(fs.Args())
		return
	}
	p := registry[id]
	if p == nil {
		usage()
	}
	if *replay != "" {
		b, err := os.ReadFile(*replay)
		if err != nil {
			fmt.Fprintln(os.Stderr, err)
			os.Exit(2)
		}
		var r struct {
			Kind       string          `json:"kind"`
			Case       json.RawMessage `json:"case"`
			Classifier string          `json:"classifier"`
		}
		if err := json.Unmarshal(b, &r); err != nil {
			fmt.Fprintln(os.Stderr, err)
			os.Exit(2)
		}
		if p.replay == nil {
			fmt.Println("no replay function for", id)
			os.Exit(2)
		}
		f := p.replay(r.Kind, r.Case)
		if f == nil {
			fmt.Printf("REPLAY property=%s: case passes on this tree\n", id)
			os.Exit(0)
		}
		if strings.HasPrefix(f.Class, "replay/") {
			fmt.Printf("REPLAY property=%s: this case cannot be replayed on its own: [%s] %s\n", id, f.Class, f.What)
			os.Exit(3)
		}
		fmt.Printf("REPLAY property=%s: case FAILS: [%s] %s\n", id, f.Class, f.What)
		os.Exit(1)
	}
	if *tier != "quick" && *tier != "thorough" {
		usage()
	}
	c := newCtx(id, *tier)
	p.run(c)
	if c.Workers > 1 && os.Getenv("VERIF_SEQUENTIAL_RERUN") == "" {
		if why := c.needsSequentialRun(p); why != "" {
			// the workers of this run used independent values in parallel. If that alone can explain what was seen
			// (interference between independent values is C19's subject, not this property's), only a run with one
			// worker can decide this property.
			fmt.Printf("NOTE: %s; repeating %s with one worker, whose verdict is the one reported\n", why, id)
			cmd := exec.Command(os.Args[0], id, "-tier", *tier)
			cmd.Env = append(os.Environ(), "VERIF_WORKERS=1", "VERIF_SEQUENTIAL_RERUN=1")
			if os.Getenv("VERIF_BUDGET_S") == "" {
				cmd.Env = append(cmd.Env, "VERIF_BUDGET_S=1200")
			}
			cmd.Stdout, cmd.Stderr = os.Stdout, os.Stderr
			err := cmd.Run()
			if err == nil {
				os.Exit(0)
			}
			if ee, ok := err.(*exec.ExitError); ok {
				os.Exit(ee.ExitCode())
			}
			fmt.Fprintln(os.Stderr, err)
			os.Exit(2)
		}
	}
	os.Exit(c.Finish())
}

// needsSequentialRun decides whether the verdict of a parallel run has to be re-established with one worker:
// yes if a worker was disturbed (library panic outside a try, non-reproducible failure), or if a recorded failure
// does not fail when its replay case is evaluated alone in a fresh process.
func (c *Ctx) needsSequentialRun(p *propCheck) string {
	if atomic.LoadInt32(&c.disturbed) == 1 {
		return "a parallel worker was disturbed (library panic outside a guarded call, or a failure that did not reproduce)"
	}
	if p.replay == nil {
		return ""
	}
	known := map[string]bool{}
	for _, k := range loadKnown() {
		if k.Property == c.Prop && k.Status == "open" {
			known[k.Classifier] = true
		}
	}
	var classes []string
	for cl := range c.findings {
		if !known[cl] {
			classes = append(classes, cl)
		}
	}
	sort.Strings(classes)
	if len(classes) > 12 {
		classes = classes[:12]
	}
	for _, cl := range classes {
		a := c.findings[cl]
		rep := map[string]interface{}{"property": c.Prop, "classifier": cl, "kind": a.first.Kind, "case": a.first.Replay}
		b, err := json.Marshal(rep)
		if err != nil {
			continue
		}
		f, err := os.CreateTemp("", "verif-confirm-*.json")
		if err != nil {
			continue
		}
		f.Write(b)
		f.Close()
		ctx, cancel := context.WithTimeout(context.Background(), 120*time.Second)
		cmd := exec.CommandContext(ctx, os.Args[0], c.Prop, "-replay", f.Name())
		cmd.Env = append(os.Environ(), "VERIF_WORKERS=1", "VERIF_SEQUENTIAL_RERUN=1")
		err = cmd.Run()
		cancel()
		os.Remove(f.Name())
		if err == nil { // exit 0: the case passes when evaluated alone
			return fmt.Sprintf("the failure [%s] does not fail when its case is evaluated alone in a fresh process", cl)
		}
	}
	return ""
}

func usage() {
	ids := []string{}
	for k := range registry {
		ids = append(ids, k)
	}
	sort.Strings(ids)
	fmt.Fprintln(os.Stderr, "usage: mc <property> [-tier quick|thorough] [-replay file]; properties:", ids)
	os.Exit(2)
}

var auxCmds = map[string]func(args []string){}

func auxMain(args []string) {
	if len(args) == 0 || auxCmds[args[0]] == nil {
		fmt.Fprintln(os.Stderr, "unknown aux command")
		os.Exit(2)
	}
	auxCmds[args[0]](args[1:])
}
