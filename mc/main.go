package main

import (
	"encoding/json"
	"flag"
	"fmt"
	"os"
	"sort"
)

type propCheck struct {
	run    func(c *Ctx)
	replay func(kind string, raw json.RawMessage) *Failure
}

var registry = map[string]*propCheck{}

func register(id string, run func(c *Ctx), replay func(kind string, raw json.RawMessage) *Failure) {
	registry[id] = &propCheck{run: run, replay: replay}
}

func main() {
	if len(os.Args) < 2 {
		usage()
	}
	id := os.Args[1]
	fs := flag.NewFlagSet("mc", flag.ExitOnError)
	tier := fs.String("tier", "quick", "quick|thorough")
	replay := fs.String("replay", "", "replay file")
	fs.Parse(os.Args[2:])
	if t := os.Getenv("VERIF_TIER"); t != "" && *tier == "" {
		*tier = t
	}
	if id == "aux" {
		auxMain(fs.Args())
		return
	}
	p := registry[id]
	if p == nil {
		usage()
	}
	if *replay != "" {
		b, err := os.ReadFile(*replay)
		if err != nil {
			fmt.Fprintln(os.Stderr, err)
			os.Exit(2)
		}
		var r struct {
			Kind       string          `json:"kind"`
			Case       json.RawMessage `json:"case"`
			Classifier string          `json:"classifier"`
		}
		if err := json.Unmarshal(b, &r); err != nil {
			fmt.Fprintln(os.Stderr, err)
			os.Exit(2)
		}
		if p.replay == nil {
			fmt.Println("no replay function for", id)
			os.Exit(2)
		}
		f := p.replay(r.Kind, r.Case)
		if f == nil {
			fmt.Printf("REPLAY property=%s: case passes on this tree\n", id)
			os.Exit(0)
		}
		fmt.Printf("REPLAY property=%s: case FAILS: [%s] %s\n", id, f.Class, f.What)
		os.Exit(1)
	}
	if *tier != "quick" && *tier != "thorough" {
		usage()
	}
	c := newCtx(id, *tier)
	p.run(c)
	os.Exit(c.Finish())
}

func usage() {
	ids := []string{}
	for k := range registry {
		ids = append(ids, k)
	}
	sort.Strings(ids)
	fmt.Fprintln(os.Stderr, "usage: mc <property> [-tier quick|thorough] [-replay file]; properties:", ids)
	os.Exit(2)
}

var auxCmds = map[string]func(args []string){}

func auxMain(args []string) {
	if len(args) == 0 || auxCmds[args[0]] == nil {
		fmt.Fprintln(os.Stderr, "unknown aux command")
		os.Exit(2)
	}
	auxCmds[args[0]](args[1:])
}
