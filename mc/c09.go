package main

// C09: clique and colouring invariants are exact and come with valid witnesses.

import (
	"encoding/json"
	"fmt"
	"sort"
	"sync"
	"sync/atomic"
	"time"

	"github.com/Tom-Johnston/mamba/graph"
)

type invC09 struct {
	clique, indep, chi, chiIndex, degen int
	maxCliques                          int
	colourings                          []int // number of proper k-colourings, k = 0..n
}

func computeInvC09(m *MG) *invC09 {
	iv := &invC09{}
	iv.clique = refCliqueNumber(m)
	iv.indep = refIndependenceNumber(m)
	iv.maxCliques = len(refMaximalCliques(m))
	iv.chi = refChromaticNumber(m)
	iv.chiIndex = refChromaticIndex(m)
	iv.degen = refDegeneracy(m)
	for k := 0; k <= m.n; k++ {
		iv.colourings = append(iv.colourings, refCountColourings(m, k))
	}
	return iv
}

// computeInvC09Light: the invariants that stay cheap at n = 8 (no colouring counts; the chromatic index from the
// direct edge-colouring search instead of colouring the line graph).
func computeInvC09Light(m *MG) *invC09 {
	iv := &invC09{}
	iv.clique = refCliqueNumber(m)
	iv.indep = refIndependenceNumber(m)
	iv.maxCliques = len(refMaximalCliques(m))
	iv.chi = refChromaticNumber(m)
	iv.chiIndex = refEdgeChromaticIndex(m)
	iv.degen = refDegeneracy(m)
	return iv
}

type giCase struct {
	N     int    `json:"n"`
	Mask  uint64 `json:"mask"`
	G6    string `json:"graph6"`
	Rep   string `json:"rep"`
	Order []int  `json:"order,omitempty"`
}

func properModel(m *MG, col []int) bool {
	if len(col) != m.n {
		return false
	}
	for i := 0; i < m.n; i++ {
		if col[i] < 0 {
			return false
		}
		for j := 0; j < i; j++ {
			if m.has(i, j) && col[i] == col[j] {
				return false
			}
		}
	}
	return true
}

func usesExactly(col []int, k int) bool {
	seen := make([]bool, k)
	for _, c := range col {
		if c < 0 || c >= k {
			return false
		}
		seen[c] = true
	}
	for _, s := range seen {
		if !s {
			return false
		}
	}
	return true
}

func evalC09(gc giCase, iv *invC09) *Failure {
	n, mask, rep := gc.N, gc.Mask, gc.Rep
	m := mgFromMask(n, mask)
	if iv == nil {
		if n >= 8 {
			iv = computeInvC09Light(m)
		} else {
			iv = computeInvC09(m)
		}
	}
	mk := func(fn, cl, what string) *Failure {
		sfx := ""
		if n == 0 {
			sfx = "/n=0"
		}
		return &Failure{Class: "invariants/" + fn + "/" + cl + sfx, What: fmt.Sprintf("%s on %s %s (n=%d): %s", fn, rep, g6(n, mask), n, what), Kind: "c09", Replay: gc}
	}
	g := graphInRep(rep, n, mask)
	var f *Failure
	run := func(fn string, body func() *Failure) bool {
		var r *Failure
		if msg, p := try(func() { r = body() }); p {
			f = mk(fn, "panic", msg)
			return false
		}
		if r != nil {
			f = r
			return false
		}
		return true
	}
	ok := run("CliqueNumber", func() *Failure {
		if got := graph.CliqueNumber(g); got != iv.clique {
			return mk("CliqueNumber", "wrong-value", fmt.Sprintf("got %d want %d", got, iv.clique))
		}
		return nil
	}) && run("IndependenceNumber", func() *Failure {
		if got := graph.IndependenceNumber(g); got != iv.indep {
			return mk("IndependenceNumber", "wrong-value", fmt.Sprintf("got %d want %d", got, iv.indep))
		}
		return nil
	}) && run("AllMaximalCliques", func() *Failure {
		ch := make(chan []int)
		var got [][]int
		var pmsg string
		var wg sync.WaitGroup
		wg.Add(1)
		go func() {
			defer wg.Done()
			defer func() {
				if r := recover(); r != nil {
					pmsg = fmt.Sprint(r)
					// unblock the receiver if the producer died before closing
					defer func() { recover() }()
					close(ch)
				}
			}()
			graph.AllMaximalCliques(g, ch)
		}()
		for c := range ch {
			got = append(got, append([]int{}, c...))
		}
		wg.Wait()
		if pmsg != "" {
			return mk("AllMaximalCliques", "panic", pmsg)
		}
		seen := map[uint64]bool{}
		for _, c := range got {
			var s uint64
			for _, v := range c {
				if v < 0 || v >= n || s>>uint(v)&1 == 1 {
					return mk("AllMaximalCliques", "malformed-clique", fmt.Sprint(c))
				}
				s |= 1 << uint(v)
			}
			if seen[s] {
				return mk("AllMaximalCliques", "clique-reported-twice", fmt.Sprint(c))
			}
			seen[s] = true
		}
		want := refMaximalCliques(m)
		for _, s := range want {
			if !seen[s] {
				return mk("AllMaximalCliques", "clique-missing", fmt.Sprintf("maximal clique %v not reported (got %v)", maskToList(s), got))
			}
		}
		if len(got) != len(want) {
			return mk("AllMaximalCliques", "non-maximal-or-non-clique-reported", fmt.Sprintf("got %v, the maximal cliques are %d", got, len(want)))
		}
		return nil
	}) && run("ChromaticNumber", func() *Failure {
		chi, col := graph.ChromaticNumber(g)
		if chi != iv.chi {
			return mk("ChromaticNumber", "wrong-value", fmt.Sprintf("got %d want %d", chi, iv.chi))
		}
		if !properModel(m, col) || !usesExactly(col, chi) {
			return mk("ChromaticNumber", "bad-witness", fmt.Sprintf("colouring %v is not a proper colouring with exactly the colours 0..%d", col, chi-1))
		}
		return nil
	}) && run("IsKColorable", func() *Failure {
		for k := 0; k <= n+1; k++ {
			okk, col := graph.IsKColorable(g, k)
			if okk != (k >= iv.chi) {
				return mk("IsKColorable", "wrong-answer", fmt.Sprintf("k=%d: got %v, chromatic number is %d", k, okk, iv.chi))
			}
			if okk {
				if !properModel(m, col) {
					return mk("IsKColorable", "bad-witness", fmt.Sprintf("k=%d colouring %v is not proper", k, col))
				}
				for _, c := range col {
					if c >= k {
						return mk("IsKColorable", "bad-witness", fmt.Sprintf("k=%d colouring %v uses colour %d", k, col, c))
					}
				}
			} else if col != nil {
				return mk("IsKColorable", "colouring-with-false", fmt.Sprintf("k=%d returned false with colouring %v", k, col))
			}
		}
		return nil
	}) && run("ChromaticIndex", func() *Failure {
		ci, ce := graph.ChromaticIndex(g)
		if ci != iv.chiIndex {
			return mk("ChromaticIndex", "wrong-value", fmt.Sprintf("got %d want %d", ci, iv.chiIndex))
		}
		if len(ce) != edgeCount(n) {
			return mk("ChromaticIndex", "witness-wrong-length", fmt.Sprintf("edge colouring has %d entries for %d vertex pairs", len(ce), edgeCount(n)))
		}
		used := make([]bool, ci+1)
		for j := 1; j < n; j++ {
			for i := 0; i < j; i++ {
				c := int(ce[j*(j-1)/2+i])
				if m.has(i, j) != (c != 0) || c > ci {
					return mk("ChromaticIndex", "bad-witness", fmt.Sprintf("edge array %v: pair (%d,%d) has colour %d", ce, i, j, c))
				}
				used[c] = true
				if c != 0 {
					for k := 0; k < n; k++ {
						if k != i && k != j {
							a, b := i, k
							if a > b {
								a, b = b, a
							}
							if int(ce[b*(b-1)/2+a]) == c && m.has(a, b) {
								return mk("ChromaticIndex", "bad-witness", fmt.Sprintf("edges (%d,%d) and (%d,%d) share a vertex and colour %d", i, j, a, b, c))
							}
							a, b = j, k
							if a > b {
								a, b = b, a
							}
							if int(ce[b*(b-1)/2+a]) == c && m.has(a, b) {
								return mk("ChromaticIndex", "bad-witness", fmt.Sprintf("edges (%d,%d) and (%d,%d) share a vertex and colour %d", i, j, a, b, c))
							}
						}
					}
				}
			}
		}
		for c := 1; c <= ci; c++ {
			if !used[c] {
				return mk("ChromaticIndex", "bad-witness", fmt.Sprintf("colour %d of 1..%d unused in %v", c, ci, ce))
			}
		}
		return nil
	}) && run("Degeneracy", func() *Failure {
		d, order := graph.Degeneracy(g)
		if d != iv.degen {
			return mk("Degeneracy", "wrong-value", fmt.Sprintf("got %d want %d", d, iv.degen))
		}
		if n == 0 {
			if len(order) != 0 {
				return mk("Degeneracy", "bad-order", fmt.Sprint(order))
			}
			return nil
		}
		if !isPerm(order, n) {
			return mk("Degeneracy", "bad-order", fmt.Sprintf("%v is not an ordering of the vertices", order))
		}
		for i, v := range order {
			before := 0
			for _, u := range order[:i] {
				if m.has(u, v) {
					before++
				}
			}
			if before > d {
				return mk("Degeneracy", "bad-order", fmt.Sprintf("in %v vertex %d is preceded by %d > %d neighbours", order, v, before, d))
			}
		}
		return nil
	})
	if !ok {
		return f
	}
	if eg, isE := g.(graph.EditableGraph); isE && iv.colourings != nil {
		if !run("ChromaticPolynomial", func() *Failure {
			before := mgFromGraph(eg)
			poly := graph.ChromaticPolynomial(eg)
			if len(poly) != n+1 {
				return mk("ChromaticPolynomial", "wrong-length", fmt.Sprint(poly))
			}
			for k := 0; k <= n; k++ {
				val, pw := 0, 1
				for _, c := range poly {
					val += c * pw
					pw *= k
				}
				if val != iv.colourings[k] {
					return mk("ChromaticPolynomial", "wrong-value", fmt.Sprintf("P(G,%d) = %d from %v, but there are %d proper %d-colourings", k, val, poly, iv.colourings[k], k))
				}
			}
			if !mgFromGraph(eg).equal(before) {
				return mk("ChromaticPolynomial", "modifies-its-argument", "")
			}
			return nil
		}) {
			return f
		}
	}
	return nil
}

// evalGreedy: GreedyColor for one vertex order.
func evalGreedy(gc giCase) *Failure {
	n, mask := gc.N, gc.Mask
	m := mgFromMask(n, mask)
	g := graphInRep(gc.Rep, n, mask)
	mk := func(cl, what string) *Failure {
		return &Failure{Class: "invariants/GreedyColor/" + cl, What: fmt.Sprintf("GreedyColor on %s %s order %v: %s", gc.Rep, g6(n, mask), gc.Order, what), Kind: "greedy", Replay: gc}
	}
	var mx int
	var col []int
	order := append([]int{}, gc.Order...)
	if msg, p := try(func() { mx, col = graph.GreedyColor(g, order) }); p {
		return mk("panic", msg)
	}
	if !intsEq(order, gc.Order) {
		return mk("order-modified", fmt.Sprint(order))
	}
	if !properModel(m, col) && n > 0 {
		return mk("not-proper", fmt.Sprint(col))
	}
	// first fit: replay with the reference rule
	ref := make([]int, n)
	for i := range ref {
		ref[i] = -1
	}
	wantMax := -1
	for _, v := range gc.Order {
		c := 0
		for {
			clash := false
			for _, u := range m.nbrs(v) {
				if ref[u] == c {
					clash = true
					break
				}
			}
			if !clash {
				break
			}
			c++
		}
		ref[v] = c
		if c > wantMax {
			wantMax = c
		}
	}
	if !intsEq(col, ref) {
		return mk("not-first-fit", fmt.Sprintf("got %v, first fit gives %v", col, ref))
	}
	if mx != wantMax {
		return mk("wrong-maximum", fmt.Sprintf("returned %d, largest colour used is %d", mx, wantMax))
	}
	return nil
}

type ipcCase struct {
	N    int    `json:"n"`
	Mask uint64 `json:"mask"`
	Col  []int  `json:"colouring"`
	Nil  bool   `json:"nil,omitempty"`
}

func evalIsProper(ic ipcCase) *Failure {
	m := mgFromMask(ic.N, ic.Mask)
	g := denseFromMask(ic.N, ic.Mask)
	var col []int
	if !ic.Nil {
		col = append([]int{}, ic.Col...)
	}
	want := !ic.Nil && properModel(m, ic.Col)
	var got bool
	if msg, p := try(func() { got = graph.IsProperColouring(g, col) }); p {
		return &Failure{Class: "invariants/IsProperColouring/panic", What: fmt.Sprintf("%s colouring %v: %s", g6(ic.N, ic.Mask), ic.Col, msg), Kind: "isproper", Replay: ic}
	}
	if got != want {
		return &Failure{Class: "invariants/IsProperColouring/wrong-answer", What: fmt.Sprintf("%s colouring %v nil=%v: got %v want %v", g6(ic.N, ic.Mask), ic.Col, ic.Nil, got, want), Kind: "isproper", Replay: ic}
	}
	return nil
}

func runC09(c *Ctx) {
	c.Level = "exploration"
	c.Rule = "every labelled graph with n<=5 in four representations (dense, sparse, complement-of-complement view, induced-subgraph view), n=6 dense+sparse (n=7 dense in thorough); brute-force oracles (subset enumeration, exhaustive colouring, colouring counts for k=0..n, edge colouring of the line graph, min-degree over all induced subgraphs) computed once per isomorphism class (explicit orbit sweep) and required of every labelled member, witnesses validated per member; IsKColorable for every k in [0,n+1]; unions of trees and cycles with 13-20 vertices against closed forms (chromatic polynomial product formula, chi, omega, alpha, degeneracy, chromatic index) under relabellings; GreedyColor for every vertex order (n<=5; n=6 thorough); IsProperColouring on every colouring over {-1,0,1,2} of graphs with n<=4; non-trivial = graph with at least one edge"
	maxDense := 6
	if c.Thorough() {
		maxDense = 7
	}
	for n := 0; n <= maxDense; n++ {
		class, reps := orbitSweep(n)
		invs := make([]*invC09, len(reps))
		c.parFor(int64(len(reps)), 1, func(lo, hi int64) {
			for i := lo; i < hi; i++ {
				invs[i] = computeInvC09(mgFromMask(n, reps[i]))
			}
		})
		reprs := []string{"dense"}
		if n <= 6 {
			reprs = append(reprs, "sparse")
		}
		if n <= 5 {
			reprs = append(reprs, "cocomplement", "induced-view", "dense-bytes", "nested-view")
		}
		total := int64(len(class))
		c.parFor(total, 64, func(lo, hi int64) {
			for mm := lo; mm < hi; mm++ {
				if c.Expired() {
					return
				}
				for _, rep := range reprs {
					gc := giCase{N: n, Mask: uint64(mm), G6: g6(n, uint64(mm)), Rep: rep}
					iv := invs[class[mm]]
					c.CheckTimed(120*time.Second, func() *Failure { return evalC09(gc, iv) }, func() *Failure {
						return &Failure{Class: "invariants/does-not-terminate", What: fmt.Sprintf("%s %s: no answer within 120s", rep, gc.G6), Kind: "c09", Replay: gc}
					})
					if mm != 0 {
						c.Nontrivial(1)
					}
				}
			}
		})
		if c.Expired() {
			c.CapHit(fmt.Sprintf("deadline at n=%d", n))
			break
		}
		c.Count(fmt.Sprintf("labelled_graphs_n%d_x_reps%d", n, len(reprs)), total)
		c.Count(fmt.Sprintf("classes_n%d", n), int64(len(reps)))
	}
	// GreedyColor, every order
	gmax := 5
	if c.Thorough() {
		gmax = 6
	}
	for n := 0; n <= gmax; n++ {
		perms := allPerms(n)
		total := int64(1) << uint(edgeCount(n))
		c.parFor(total, 16, func(lo, hi int64) {
			for mm := lo; mm < hi; mm++ {
				for pi, p := range perms {
					rep := "dense"
					if pi%2 == 1 {
						rep = "sparse"
					}
					gc := giCase{N: n, Mask: uint64(mm), Rep: rep, Order: p}
					c.Check(func() *Failure { return evalGreedy(gc) })
				}
			}
		})
		c.Count(fmt.Sprintf("greedy_cases_n%d", n), total*int64(len(perms)))
	}
	// GreedyColor with an order of the wrong length panics (documented)
	c.Check(func() *Failure {
		if _, p := try(func() { graph.GreedyColor(graph.Path(3), []int{0, 1}) }); !p {
			return &Failure{Class: "invariants/GreedyColor/missing-panic", What: "order of the wrong length accepted", Kind: "greedy-conv"}
		}
		return nil
	})
	// IsProperColouring against the definition
	for n := 0; n <= 4; n++ {
		var cols [][]int
		stringsOverInts([]int{-1, 0, 1, 2}, n, func(s []int) {
			if len(s) == n || len(s) == n-1 || len(s) == n+1 {
				cols = append(cols, append([]int{}, s...))
			}
		})
		stringsOverInts([]int{-1, 0, 1, 2}, n+1, func(s []int) {
			if len(s) == n+1 && s[0] == 0 {
				cols = append(cols, append([]int{}, s...))
			}
		})
		for mm := uint64(0); mm < 1<<uint(edgeCount(n)); mm++ {
			for _, col := range cols {
				ic := ipcCase{N: n, Mask: mm, Col: col}
				c.Check(func() *Failure { return evalIsProper(ic) })
			}
			ic := ipcCase{N: n, Mask: mm, Nil: true}
			c.Check(func() *Failure { return evalIsProper(ic) })
		}
	}
	{
		// one representative of every isomorphism class on 8 vertices (12346), alternately dense and sparse and under a
		// reversal or rotation of the labels: everything but the chromatic polynomial against the references
		reps8 := classReps(8) // the library's own search as input generator (its output is established by C01/C03)
		if len(reps8) != 12346 {
			c.HarnessError("search.All(8) produced %d graphs (used as input generator)", len(reps8))
			reps8 = nil
		}
		perms := relabelBattery(8, false, 0)
		var n8 int64
		c.parFor(int64(len(reps8)), 16, func(lo, hi int64) {
			for i := lo; i < hi; i++ {
				r := reps8[i]
				iv := computeInvC09Light(mgFromMask(8, r))
				mask, rep := r, "dense"
				switch i % 3 {
				case 1:
					mask, rep = permuteMask(8, r, perms[0]), "sparse"
				case 2:
					mask = permuteMask(8, r, perms[len(perms)-1])
				}
				gc := giCase{N: 8, Mask: mask, G6: g6(8, mask), Rep: rep}
				c.CheckTimed(120*time.Second, func() *Failure { return evalC09(gc, iv) }, func() *Failure {
					return &Failure{Class: "invariants/does-not-terminate", What: fmt.Sprintf("%s %s: no answer within 120s", rep, gc.G6), Kind: "c09", Replay: gc}
				})
				atomic.AddInt64(&n8, 1)
				c.Nontrivial(1)
			}
		})
		c.SetCount("class_representatives_n8", n8)
	}
	c09Large(c)
	c09Wide(c)
	c09Families(c)
	c09Irregular(c)
	// the view representations stay live: query, edit the underlying graph, query again
	var vcs []viewCase
	for n := 3; n <= 5; n++ {
		vcs = append(vcs, viewHistoryCases(n, "c09-values")...)
	}
	c.parFor(int64(len(vcs)), 16, func(lo, hi int64) {
		for _, vc := range vcs[lo:hi] {
			vc := vc
			c.Check(func() *Failure { return evalViewHistory(vc, observeC09) })
		}
	})
	c.SetCount("view_histories", int64(len(vcs)))
	c.Sample("graph", giCase{N: 6, Mask: 0x5a3c, G6: g6(6, 0x5a3c), Rep: "sparse"})
	c.Sample("greedy", giCase{N: 4, Mask: 0x2d, Rep: "dense", Order: []int{2, 0, 3, 1}})
	c.Assume("graphs with n >= 8 are not covered")
}

// observeC09: the witness-free values of the C09 functions (witnesses may legitimately differ between representations).
func observeC09(g graph.Graph) string {
	chi, col := graph.ChromaticNumber(g)
	d, order := graph.Degeneracy(g)
	m := mgFromGraph(g)
	okOrder := g.N() == 0 || isPerm(order, g.N())
	if okOrder {
		for i, v := range order {
			before := 0
			for _, u := range order[:i] {
				if m.has(u, v) {
					before++
				}
			}
			if before > d {
				okOrder = false
			}
		}
	}
	ci, _ := graph.ChromaticIndex(g)
	k2, _ := graph.IsKColorable(g, 2)
	mx, _ := graph.GreedyColor(g, func() []int {
		o := make([]int, g.N())
		for i := range o {
			o[i] = i
		}
		return o
	}())
	return fmt.Sprint(graph.CliqueNumber(g), graph.IndependenceNumber(g), chi, properModel(m, col) || g.N() == 0, d, okOrder, ci, k2, mx)
}

func stringsOverInts(alpha []int, maxLen int, emit func(s []int)) {
	var cur []int
	var rec func()
	rec = func() {
		emit(cur)
		if len(cur) == maxLen {
			return
		}
		for _, a := range alpha {
			cur = append(cur, a)
			rec()
			cur = cur[:len(cur)-1]
		}
	}
	rec()
}

func replayC09(kind string, raw json.RawMessage) *Failure {
	switch kind {
	case "c09":
		var gc giCase
		json.Unmarshal(raw, &gc)
		return evalC09(gc, nil)
	case "c09-large":
		var lc c09LargeCase
		json.Unmarshal(raw, &lc)
		return evalC09Large(lc)
	case "c09-family":
		var fc c09FamCase
		json.Unmarshal(raw, &fc)
		return evalC09Fam(fc)
	case "c09-irregular":
		var ic c09IrrCase
		json.Unmarshal(raw, &ic)
		return evalC09Irr(ic)
	case "c09-wide":
		var wc c09WideCase
		json.Unmarshal(raw, &wc)
		return evalC09Wide(wc)
	case "view-history":
		var vc viewCase
		json.Unmarshal(raw, &vc)
		return evalViewHistory(vc, observeC09)
	case "greedy":
		var gc giCase
		json.Unmarshal(raw, &gc)
		return evalGreedy(gc)
	case "isproper":
		var ic ipcCase
		json.Unmarshal(raw, &ic)
		return evalIsProper(ic)
	}
	return &Failure{Class: "replay/unsupported-kind", What: kind}
}

func init() { register("C09", runC09, replayC09) }

var _ = sort.Ints
