package main

// C02 on graphs with 9..130 vertices whose orbit partition and automorphism group order are known from their
// construction (cycles, complete and complete bipartite graphs, hypercubes, prisms, wheels, circulants, grids,
// disjoint unions): the returned orbit partition must be the known one, every generator an automorphism, the
// orbits of the generated group the known orbits, and (where the order is small enough to enumerate) the
// generators must generate exactly |Aut| elements.

import (
	"fmt"
	"time"

	"github.com/Tom-Johnston/mamba/disjoint"
	"github.com/Tom-Johnston/mamba/graph"
)

type famCase struct {
	Name   string   `json:"name"`
	N      int      `json:"n"`
	Edges  [][2]int `json:"edges"`
	Orbit  []int    `json:"orbit_of_vertex"` // a label per vertex: equal labels = same orbit
	Order  int64    `json:"aut_order,omitempty"`
	Rep    string   `json:"rep"`
	Reused bool     `json:"through_used_storage,omitempty"`
}

func evalFamAut(fc famCase) *Failure {
	g := &EG{N: fc.N, Edges: fc.Edges}
	g.norm()
	n := g.N
	mk := func(cl, what string) *Failure {
		return &Failure{Class: "canonical-aut/" + cl + "/family", What: fmt.Sprintf("%s %s (n=%d): %s", fc.Rep, fc.Name, n, what), Kind: "family-aut", Replay: fc}
	}
	var perm []int
	var ds disjoint.Set
	var gens [][]int
	if msg, p := try(func() { perm, ds, gens = graph.CanonicalIsomorphFull(libGraphFromEG(g, fc.Rep), nil) }); p {
		return mk("panic", msg)
	}
	if !isPerm(perm, n) {
		return mk("not-a-permutation", fmt.Sprint(perm))
	}
	lab, e := orbitLabels(ds, n)
	if e != "" {
		return mk("orbits-malformed", e)
	}
	first := map[int]int{}
	want := make([]int, n)
	for v := 0; v < n; v++ {
		if _, ok := first[fc.Orbit[v]]; !ok {
			first[fc.Orbit[v]] = v
		}
		want[v] = first[fc.Orbit[v]]
	}
	if !intsEq(lab, want) {
		return mk("orbits", fmt.Sprintf("returned orbit partition %v, the orbits are %v", lab, want))
	}
	has := map[[2]int]bool{}
	for _, ed := range g.Edges {
		has[ed] = true
	}
	// orbits of the generated group, by union-find over the generators
	par := make([]int, n)
	for i := range par {
		par[i] = i
	}
	var find func(x int) int
	find = func(x int) int {
		for par[x] != x {
			par[x] = par[par[x]]
			x = par[x]
		}
		return x
	}
	for _, gen := range gens {
		if !isPerm(gen, n) {
			return mk("generator-not-a-permutation", fmt.Sprint(gen))
		}
		for _, ed := range g.Edges {
			a, b := gen[ed[0]], gen[ed[1]]
			if a > b {
				a, b = b, a
			}
			if !has[[2]int{a, b}] {
				return mk("generator-not-automorphism", fmt.Sprint(gen))
			}
		}
		for v := 0; v < n; v++ {
			a, b := find(v), find(gen[v])
			if a != b {
				if a < b {
					par[b] = a
				} else {
					par[a] = b
				}
			}
		}
	}
	for v := 0; v < n; v++ {
		if find(v) != find(want[v]) {
			return mk("generators-do-not-generate-aut", fmt.Sprintf("vertex %d is not joined to vertex %d of its orbit by the generators %v", v, want[v], gens))
		}
	}
	if fc.Order > 0 && fc.Order <= 20000 {
		size, _ := groupClosure(n, copyGens(gens), int(fc.Order))
		if int64(size) != fc.Order {
			return mk("generators-do-not-generate-aut", fmt.Sprintf("generators generate %d elements, |Aut| = %d", size, fc.Order))
		}
	}
	return nil
}

func c02Families(c *Ctx) {
	type fam struct {
		name  string
		g     *EG
		orbit []int
		order int64
	}
	var fams []fam
	add := func(name string, n int, order int64, orbit func(v int) int, edges func(add func(i, j int))) {
		g := &EG{N: n}
		edges(func(i, j int) { egAdd(g, i, j) })
		g.norm()
		ob := make([]int, n)
		for v := range ob {
			ob[v] = orbit(v)
		}
		fams = append(fams, fam{name, g, ob, order})
	}
	sizes := []int{9, 12, 16, 17, 31, 32, 33}
	if c.Thorough() {
		sizes = append(sizes, 48, 63, 64, 65, 100, 128, 130)
	}
	one := func(int) int { return 0 }
	for _, n := range sizes {
		n := n
		add(fmt.Sprintf("cycle%d", n), n, int64(2*n), one, func(e func(i, j int)) {
			for i := 0; i < n; i++ {
				e(i, (i+1)%n)
			}
		})
		add(fmt.Sprintf("wheel%d", n), n+1, int64(2*n), func(v int) int {
			if v == n {
				return 1
			}
			return 0
		}, func(e func(i, j int)) {
			for i := 0; i < n; i++ {
				e(i, (i+1)%n)
				e(i, n)
			}
		})
		add(fmt.Sprintf("prism%d", n), 2*n, int64(4*n), one, func(e func(i, j int)) {
			for i := 0; i < n; i++ {
				e(i, (i+1)%n)
				e(n+i, n+(i+1)%n)
				e(i, n+i)
			}
		})
		add(fmt.Sprintf("K%d,%d", n/2, n-n/2+1), n+1, 0, func(v int) int {
			if v < n/2 {
				return 0
			}
			return 1
		}, func(e func(i, j int)) {
			for i := 0; i < n/2; i++ {
				for j := n / 2; j < n+1; j++ {
					e(i, j)
				}
			}
		})
		add(fmt.Sprintf("complete%d", n), n, 0, one, func(e func(i, j int)) {
			for i := 0; i < n; i++ {
				for j := 0; j < i; j++ {
					e(j, i)
				}
			}
		})
		add(fmt.Sprintf("cocktail-party%d", n), 2*n, 0, one, func(e func(i, j int)) {
			for i := 0; i < 2*n; i++ {
				for j := 0; j < i; j++ {
					if i-j != n {
						e(j, i)
					}
				}
			}
		})
		// cycle with a pendant vertex on vertex 0: orbits {0}, {pendant}, {i, n-i}
		add(fmt.Sprintf("cycle%d+pendant", n), n+1, 2, func(v int) int {
			if v == n {
				return n + 5
			}
			if v == 0 {
				return 0
			}
			if v <= n-v {
				return v
			}
			return n - v
		}, func(e func(i, j int)) {
			for i := 0; i < n; i++ {
				e(i, (i+1)%n)
			}
			e(0, n)
		})
		// two cycles of different length plus a triangle: three orbits
		if n >= 9 {
			a := n / 2
			b := n - a
			if a == b {
				b++
			}
			if a != 3 && b != 3 {
				add(fmt.Sprintf("C%d+C%d+C3", a, b), a+b+3, int64(2*a)*int64(2*b)*6, func(v int) int {
					if v < a {
						return 0
					}
					if v < a+b {
						return 1
					}
					return 2
				}, func(e func(i, j int)) {
					for i := 0; i < a; i++ {
						e(i, (i+1)%a)
					}
					for i := 0; i < b; i++ {
						e(a+i, a+(i+1)%b)
					}
					e(a+b, a+b+1)
					e(a+b+1, a+b+2)
					e(a+b, a+b+2)
				})
			}
		}
	}
	for d := 3; d <= 6; d++ {
		d := d
		if d == 6 && !c.Thorough() {
			continue
		}
		ord := int64(1)
		for i := 2; i <= d; i++ {
			ord *= int64(i)
		}
		ord <<= uint(d)
		add(fmt.Sprintf("hypercube%d", d), 1<<uint(d), ord, one, func(e func(i, j int)) {
			for v := 0; v < 1<<uint(d); v++ {
				for b := 0; b < d; b++ {
					if v>>uint(b)&1 == 0 {
						e(v, v|1<<uint(b))
					}
				}
			}
		})
	}
	// grids a x b (a != b): orbits = classes of (min(i,a-1-i), min(j,b-1-j)), |Aut| = 4
	for _, ab := range [][2]int{{3, 4}, {4, 5}, {3, 11}, {5, 8}, {6, 11}} {
		a, b := ab[0], ab[1]
		if a*b > 40 && !c.Thorough() {
			continue
		}
		add(fmt.Sprintf("grid%dx%d", a, b), a*b, 4, func(v int) int {
			i, j := v/b, v%b
			if a-1-i < i {
				i = a - 1 - i
			}
			if b-1-j < j {
				j = b - 1 - j
			}
			return i*b + j
		}, func(e func(i, j int)) {
			for i := 0; i < a; i++ {
				for j := 0; j < b; j++ {
					if j+1 < b {
						e(i*b+j, i*b+j+1)
					}
					if i+1 < a {
						e(i*b+j, (i+1)*b+j)
					}
				}
			}
		})
	}
	var cases []famCase
	for _, f := range fams {
		perms := [][]int{nil, lcgPerm(f.g.N, uint64(f.g.N)*17+3), relabelBattery(f.g.N, false, 0)[0]}
		if c.Thorough() {
			perms = append(perms, lcgPerm(f.g.N, uint64(f.g.N)*41+11), genTau(f.g.N))
		}
		for pi, p := range perms {
			h, ob := f.g, f.orbit
			if p != nil {
				h = egRelabel(f.g, p)
				ob = make([]int, f.g.N)
				for v := range ob {
					ob[p[v]] = f.orbit[v]
				}
			}
			rep := "dense"
			if pi%2 == 1 {
				rep = "sparse"
			}
			cases = append(cases, famCase{Name: fmt.Sprintf("%s/relabel%d", f.name, pi), N: h.N, Edges: h.Edges, Orbit: ob, Order: f.order, Rep: rep})
		}
	}
	c.parFor(int64(len(cases)), 1, func(lo, hi int64) {
		for _, fc := range cases[lo:hi] {
			fc := fc
			c.CheckTimed(300*time.Second, func() *Failure { return evalFamAut(fc) }, func() *Failure {
				return &Failure{Class: "canonical-aut/does-not-terminate/family", What: fmt.Sprintf("%s %s (n=%d) still running after 300 s", fc.Rep, fc.Name, fc.N), Kind: "family-aut", Replay: fc, NoRepro: true}
			})
			c.Nontrivial(1)
		}
	})
	c.SetCount("families_with_known_orbits_cases", int64(len(cases)))
}
