package main

// C01: canonical labelling is a complete isomorphism invariant.
// Exhaustive over all labelled graphs on n vertices (closed under relabelling), so that
// c(g) = c(sigma g) = c(tau g) for every g is exactly "invariant under all n! relabellings".

import (
	"encoding/json"
	"fmt"
	"math/bits"
	"sync"
	"sync/atomic"
	"time"

	"github.com/Tom-Johnston/mamba/graph"
)

// relabelInduced returns the mask of h with h(i,j) = g(p[i],p[j]) (the graph InducedSubgraph(p) of g).
func relabelInduced(n int, mask uint64, p []int) uint64 {
	var m uint64
	idx := uint(0)
	for j := 1; j < n; j++ {
		for i := 0; i < j; i++ {
			a, b := p[i], p[j]
			if a > b {
				a, b = b, a
			}
			if mask>>uint(b*(b-1)/2+a)&1 == 1 {
				m |= 1 << idx
			}
			idx++
		}
	}
	return m
}

type canonCase struct {
	N    int    `json:"n"`
	Mask uint64 `json:"mask"`
	G6   string `json:"graph6"`
	Rep  string `json:"rep"`
	Perm []int  `json:"relabelling,omitempty"` // vertex v becomes Perm[v]
}

func graphInRep(rep string, n int, mask uint64) graph.Graph {
	m := mgFromMask(n, mask)
	switch rep {
	case "dense":
		return denseFromMask(n, mask)
	case "sparse":
		return sparseFromMG(m)
	case "cocomplement": // complement view of the dense complement: feeds sortints.Complement-built neighbour lists
		full := uint64(1)<<uint(edgeCount(n)) - 1
		return graph.Complement(denseFromMask(n, full&^mask))
	case "dense-bytes":
		// a DenseGraph whose edge indicators are arbitrary non-zero bytes (NewDense keeps the caller's values and the
		// library tests them with > 0; ChromaticIndex documents returning such an array)
		e := make([]byte, edgeCount(n))
		for i := range e {
			if mask>>uint(i)&1 == 1 {
				e[i] = byte(2 + (i*37)%254)
			}
		}
		return graph.NewDense(n, e)
	case "nested-view":
		// a view of a view, both over unsorted vertex lists: inner = view of the reversed labelling that undoes the
		// reversal after a rotation, outer undoes the rotation; the result is the graph itself
		rev := make([]int, n)
		for i := range rev {
			rev[i] = n - 1 - i
		}
		h := denseFromMask(n, permuteMask(n, mask, rev)) // vertex v of the graph is vertex rev[v] of h
		inner := make([]int, n)                          // vertex i of the inner view = graph vertex (i+1)%n = h vertex rev[(i+1)%n]
		outer := make([]int, n)                          // vertex v of the outer view = inner vertex (v-1+n)%n = graph vertex v
		for i := 0; i < n; i++ {
			inner[i] = rev[(i+1)%n]
			outer[i] = (i - 1 + n) % n
		}
		return graph.InducedSubgraph(graph.InducedSubgraph(h, inner), outer)
	case "induced-view":
		// induced-subgraph view of a graph with one extra (dropped) vertex adjacent to everything
		big := m.clone()
		big.addVertex(func() []int {
			r := []int{}
			for i := 0; i < n; i++ {
				r = append(r, i)
			}
			return r
		}())
		V := make([]int, n)
		for i := range V {
			V[i] = i
		}
		return graph.InducedSubgraph(denseFromMG(big), V)
	}
	panic("rep")
}

// canonOf runs the library's canonical labelling on the labelled graph and returns the canonical graph as a mask.
func canonOf(rep string, n int, mask uint64) (c uint64, class, what string) {
	var p []int
	g := graphInRep(rep, n, mask)
	if msg, pan := try(func() { p = append([]int(nil), graph.CanonicalIsomorph(g)...) }); pan {
		return 0, "canonical/panic", fmt.Sprintf("CanonicalIsomorph(%s %s) panics: %s", rep, g6(n, mask), msg)
	}
	if !isPerm(p, n) {
		return 0, "canonical/not-a-permutation", fmt.Sprintf("CanonicalIsomorph(%s %s) = %v", rep, g6(n, mask), p)
	}
	return relabelInduced(n, mask, p), "", ""
}

func canonFail(class, what, rep string, n int, mask uint64, perm []int) *Failure {
	return &Failure{Class: class, What: what, Kind: "canon-invariance", Replay: canonCase{N: n, Mask: mask, G6: g6(n, mask), Rep: rep, Perm: perm}}
}

// checkCanonInvariance evaluates one labelled graph against one relabelling (vertex v -> p[v]).
func checkCanonInvariance(rep string, n int, mask uint64, p []int) *Failure {
	c1, cl, what := canonOf(rep, n, mask)
	if cl != "" {
		return canonFail(cl, what, rep, n, mask, nil)
	}
	img := permuteMask(n, mask, p)
	c2, cl, what := canonOf(rep, n, img)
	if cl != "" {
		return canonFail(cl, what, rep, n, img, nil)
	}
	if c1 != c2 {
		return canonFail("canonical/not-invariant-under-relabelling/n="+fmt.Sprint(n), fmt.Sprintf("n=%d %s -> canonical %s, but relabelled by %v (%s) -> canonical %s", n, g6(n, mask), g6(n, c1), p, g6(n, img), g6(n, c2)), rep, n, mask, p)
	}
	return nil
}

// exhaustLabelled checks every labelled graph on n vertices: table of canonical forms, invariance under the
// generators sigma and tau, and number of distinct canonical forms.
func c01Exhaust(c *Ctx, n int, rep string, wantClasses int) {
	E := edgeCount(n)
	total := int64(1) << uint(E)
	table := make([]uint32, total)
	var bad int64
	c.parFor(total, 4096, func(lo, hi int64) {
		for m := lo; m < hi; m++ {
			cm, cl, what := canonOf(rep, n, uint64(m))
			if cl != "" {
				atomic.AddInt64(&bad, 1)
				c.Fail(canonFail(cl, what, rep, n, uint64(m), nil))
				table[m] = ^uint32(0)
				continue
			}
			table[m] = uint32(cm)
		}
	})
	c.Evals(total)
	sig, tau := genSigma(n), genTau(n)
	ts, tt := edgePermTable(n, sig), edgePermTable(n, tau)
	seen := make([]uint64, (total+63)/64)
	var distinct, nonInv int64
	var mu sync.Mutex
	c.parFor(total, 1<<16, func(lo, hi int64) {
		var localNon int64
		for m := lo; m < hi; m++ {
			cm := table[m]
			if cm == ^uint32(0) {
				continue
			}
			for gi, t := range [][]uint8{ts, tt} {
				img := applyEdgeTable(t, uint64(m))
				if table[img] != cm && table[img] != ^uint32(0) {
					localNon++
					p := sig
					if gi == 1 {
						p = tau
					}
					c.Check(func() *Failure { return checkCanonInvariance(rep, n, uint64(m), p) })
				}
			}
		}
		mu.Lock()
		nonInv += localNon
		mu.Unlock()
	})
	for m := int64(0); m < total; m++ {
		cm := table[m]
		if cm == ^uint32(0) {
			continue
		}
		if seen[cm/64]>>(cm%64)&1 == 0 {
			seen[cm/64] |= 1 << (cm % 64)
			distinct++
		}
	}
	c.Count(fmt.Sprintf("labelled_graphs_n%d_%s", n, rep), total)
	c.Count(fmt.Sprintf("distinct_canonical_forms_n%d_%s", n, rep), distinct)
	c.Count(fmt.Sprintf("not_invariant_n%d_%s", n, rep), nonInv)
	if wantClasses > 0 && int(distinct) != wantClasses && bad == 0 {
		c.Fail(&Failure{Class: fmt.Sprintf("canonical/class-count/n=%d", n), What: fmt.Sprintf("%s: %d distinct canonical forms over all labelled graphs on %d vertices, but there are %d isomorphism classes", rep, distinct, n, wantClasses), Kind: "canon-count", Replay: map[string]interface{}{"n": n, "rep": rep}})
	}
}

// regularLabelled enumerates all labelled d-regular graphs on n vertices (n(n-1)/2 <= 64).
func regularLabelled(n, d int, emit func(mask uint64)) {
	deg := make([]int, n)
	var rec func(i, j int, mask uint64)
	rec = func(i, j int, mask uint64) {
		if i == n-1 {
			if deg[i] == d {
				emit(mask)
			}
			return
		}
		if j == n {
			if deg[i] != d {
				return
			}
			rec(i+1, i+2, mask)
			return
		}
		// remaining slots for vertex i: n-j; need d-deg[i] more
		need := d - deg[i]
		if need > n-j {
			return
		}
		if need < n-j { // may skip this edge
			rec(i, j+1, mask)
		}
		if need > 0 && deg[j] < d {
			deg[i]++
			deg[j]++
			rec(i, j+1, mask|1<<uint(j*(j-1)/2+i))
			deg[i]--
			deg[j]--
		}
	}
	if n == 0 {
		emit(0)
		return
	}
	if n == 1 {
		if d == 0 {
			emit(0)
		}
		return
	}
	rec(0, 1, 0)
}

func c01Regular(c *Ctx, n int, degrees []int) {
	for _, d := range degrees {
		var masks []uint64
		regularLabelled(n, d, func(m uint64) { masks = append(masks, m) })
		canon := make([]uint64, len(masks))
		index := make(map[uint64]int32, len(masks))
		for i, m := range masks {
			index[m] = int32(i)
		}
		var bad int64
		c.parFor(int64(len(masks)), 256, func(lo, hi int64) {
			for i := lo; i < hi; i++ {
				cm, cl, what := canonOf("dense", n, masks[i])
				if cl != "" {
					atomic.AddInt64(&bad, 1)
					c.Fail(canonFail(cl, what, "dense", n, masks[i], nil))
					canon[i] = ^uint64(0)
					continue
				}
				canon[i] = cm
			}
		})
		c.Evals(int64(len(masks)))
		sig, tau := genSigma(n), genTau(n)
		ts, tt := edgePermTable(n, sig), edgePermTable(n, tau)
		distinct := map[uint64]bool{}
		var nonInv int64
		for i, m := range masks {
			if canon[i] == ^uint64(0) {
				continue
			}
			distinct[canon[i]] = true
			for gi, t := range [][]uint8{ts, tt} {
				img := applyEdgeTable(t, m)
				j, ok := index[img]
				if !ok {
					c.HarnessError("regular family not closed under relabelling (n=%d d=%d)", n, d)
					return
				}
				if canon[j] != canon[i] && canon[j] != ^uint64(0) {
					nonInv++
					p := sig
					if gi == 1 {
						p = tau
					}
					mm := m
					c.Check(func() *Failure { return checkCanonInvariance("dense", n, mm, p) })
				}
			}
		}
		// independent class count: orbits of the family under sigma,tau by union-find on indices
		parent := make([]int32, len(masks))
		for i := range parent {
			parent[i] = int32(i)
		}
		var find func(x int32) int32
		find = func(x int32) int32 {
			for parent[x] != x {
				parent[x] = parent[parent[x]]
				x = parent[x]
			}
			return x
		}
		for i, m := range masks {
			for _, t := range [][]uint8{ts, tt} {
				j := index[applyEdgeTable(t, m)]
				a, b := find(int32(i)), find(j)
				if a != b {
					parent[a] = b
				}
			}
		}
		orbits := 0
		for i := range parent {
			if find(int32(i)) == int32(i) {
				orbits++
			}
		}
		c.Count(fmt.Sprintf("regular_n%d_d%d_labelled", n, d), int64(len(masks)))
		c.Count(fmt.Sprintf("regular_n%d_d%d_classes", n, d), int64(orbits))
		c.Count(fmt.Sprintf("regular_n%d_d%d_not_invariant", n, d), nonInv)
		c.Nontrivial(int64(len(masks))) // regular: the unit partition is equitable, the search tree must branch
		if len(distinct) != orbits && bad == 0 {
			c.Fail(&Failure{Class: fmt.Sprintf("canonical/class-count/n=%d", n), What: fmt.Sprintf("%d-regular labelled graphs on %d vertices: %d distinct canonical forms for %d isomorphism classes", d, n, len(distinct), orbits), Kind: "canon-count", Replay: map[string]interface{}{"n": n, "degree": d}})
		}
		if len(masks) > 0 {
			c.Sample(fmt.Sprintf("regular-n%d", n), canonCase{N: n, Mask: masks[len(masks)/2], G6: g6(n, masks[len(masks)/2]), Rep: "dense"})
		}
	}
}

var classCounts = []int{1, 1, 2, 4, 11, 34, 156, 1044, 12346}

// c01Held: a permutation returned by CanonicalIsomorph belongs to the caller: later calls (on other graphs, of
// other sizes) must not change it. All ordered pairs over the graphs with n <= 4 and triples over n <= 3, run
// sequentially in one goroutine.
func c01Held(c *Ctx) {
	type lg struct {
		n    int
		mask uint64
	}
	var small []lg
	for n := 0; n <= 4; n++ {
		for m := uint64(0); m < 1<<uint(edgeCount(n)); m++ {
			small = append(small, lg{n, m})
		}
	}
	call := func(x lg) []int {
		var p []int
		try(func() { p = graph.CanonicalIsomorph(denseFromMask(x.n, x.mask)) })
		return p
	}
	var cnt int64
	for _, a := range small {
		for _, b := range small {
			a, b := a, b
			c.Check(func() *Failure {
				p := call(a)
				snap := append([]int{}, p...)
				q := call(b)
				if !intsEq(p, snap) {
					return &Failure{Class: "canonical/returned-permutation-changed-by-a-later-call", What: fmt.Sprintf("CanonicalIsomorph(%s) returned %v; after CanonicalIsomorph(%s) = %v the first slice reads %v", g6(a.n, a.mask), snap, g6(b.n, b.mask), q, p), Kind: "canon-held", Replay: []canonCase{{N: a.n, Mask: a.mask, Rep: "dense"}, {N: b.n, Mask: b.mask, Rep: "dense"}}}
				}
				return nil
			})
			cnt++
		}
	}
	c.SetCount("held_result_pairs", cnt)
}

func runC01(c *Ctx) {
	c01Held(c)
	c.Level = "exploration"
	c.Rule = "every labelled graph on n vertices (all 2^(n(n-1)/2) edge sets; the set is closed under relabelling, so invariance under the two generators (0 1) and (0 1 .. n-1) of S_n for every member is invariance under all n! relabellings); plus one representative of every isomorphism class on 8 and 9 vertices under a battery of relabellings, disjoint unions of up to three small components under all transpositions and pseudo-random relabellings, whole relabelling-closed families of regular graphs on 8-10 vertices and hard named graphs (n<=16) irregular graphs with 23-36 vertices and graphs with 67-81 vertices (canonical positions beyond one machine word) (merge phase of the refinement's stable sort) under bounded-distance and pseudo-random relabellings; non-trivial = labelled graph with a non-trivial automorphism group (orbit smaller than n!) or regular (unit partition equitable, search must branch)"
	maxAll := 7
	for n := 0; n <= maxAll; n++ {
		c01Exhaust(c, n, "dense", classCounts[n])
		if c.Expired() {
			c.CapHit("deadline in exhaustive phase")
			return
		}
	}
	// non-trivial count from the orbit sweep (|orbit| < n!)
	fact := 1
	for n := 0; n <= 7; n++ {
		if n > 0 {
			fact *= n
		}
		class, reps := orbitSweep(n)
		size := make([]int, len(reps))
		for _, id := range class {
			size[id]++
		}
		var nt int64
		for _, id := range class {
			if size[id] < fact {
				nt++
			}
		}
		c.Nontrivial(nt)
		if len(reps) != classCounts[n] {
			c.HarnessError("orbit sweep found %d classes for n=%d", len(reps), n)
		}
	}
	// other representations feed different Neighbours slices
	for n := 0; n <= 6; n++ {
		for _, rep := range []string{"sparse", "cocomplement", "induced-view", "dense-bytes", "nested-view"} {
			c01Exhaust(c, n, rep, classCounts[n])
		}
	}
	c01CrossRep(c, 6)
	c01Regular(c, 8, []int{0, 1, 2, 3, 4, 5, 6, 7})
	c01Regular(c, 9, []int{0, 2, 4, 6, 8})
	for _, part := range []struct {
		name string
		f    func(*Ctx)
	}{{"hard", c01Hard}, {"unions", c01Unions}, {"regular-unions", c01RegularUnions}, {"reps", c01Reps}, {"big", c01Big}, {"huge", c01Huge}} {
		t0 := time.Now()
		part.f(c)
		c.Bound("seconds_"+part.name, int(time.Since(t0).Seconds()))
	}
	if c.Thorough() {
		c01Exhaust(c, 8, "dense", classCounts[8])
		c01Exhaust(c, 7, "sparse", classCounts[7])
		c01Regular(c, 10, []int{3})
	}
	c.Sample("labelled-graph", canonCase{N: 7, Mask: 0x12345, G6: g6(7, 0x12345), Rep: "dense"})
	c.Assume("graphs with n >= 9 outside the listed families are not covered")
}

// c01CrossRep: the canonical graph must not depend on the representation holding the labelled graph.
func c01CrossRep(c *Ctx, maxN int) {
	for n := 0; n <= maxN; n++ {
		total := int64(1) << uint(edgeCount(n))
		c.parFor(total, 1024, func(lo, hi int64) {
			for m := lo; m < hi; m++ {
				m := uint64(m)
				c.Check(func() *Failure {
					base, cl, _ := canonOf("dense", n, m)
					if cl != "" {
						return nil // reported by the exhaustive phase
					}
					for _, rep := range []string{"sparse", "cocomplement", "induced-view", "dense-bytes", "nested-view"} {
						x, cl, _ := canonOf(rep, n, m)
						if cl == "" && x != base {
							return canonFail("canonical/representation-dependent", fmt.Sprintf("n=%d %s: dense -> %s, %s -> %s", n, g6(n, m), g6(n, base), rep, g6(n, x)), rep, n, m, nil)
						}
					}
					return nil
				})
			}
		})
	}
}

func replayC01(kind string, raw json.RawMessage) *Failure {
	switch kind {
	case "canon-invariance":
		var cc canonCase
		if err := json.Unmarshal(raw, &cc); err != nil {
			return &Failure{Class: "replay/bad-file", What: err.Error()}
		}
		if cc.Perm == nil {
			_, cl, what := canonOf(cc.Rep, cc.N, cc.Mask)
			if cl != "" {
				return &Failure{Class: cl, What: what}
			}
			base, _, _ := canonOf("dense", cc.N, cc.Mask)
			x, _, _ := canonOf(cc.Rep, cc.N, cc.Mask)
			if x != base {
				return &Failure{Class: "canonical/representation-dependent", What: fmt.Sprintf("dense -> %s, %s -> %s", g6(cc.N, base), cc.Rep, g6(cc.N, x))}
			}
			return nil
		}
		return checkCanonInvariance(cc.Rep, cc.N, cc.Mask, cc.Perm)
	case "canon-held":
		var cs []canonCase
		if err := json.Unmarshal(raw, &cs); err != nil || len(cs) != 2 {
			return &Failure{Class: "replay/bad-file", What: fmt.Sprint(err)}
		}
		var p, q []int
		try(func() { p = graph.CanonicalIsomorph(denseFromMask(cs[0].N, cs[0].Mask)) })
		snap := append([]int{}, p...)
		try(func() { q = graph.CanonicalIsomorph(denseFromMask(cs[1].N, cs[1].Mask)) })
		if !intsEq(p, snap) {
			return &Failure{Class: "canonical/returned-permutation-changed-by-a-later-call", What: fmt.Sprintf("%v became %v after a call returning %v", snap, p, q)}
		}
		return nil
	case "canon-eg":
		var ec egCanonCase
		if err := json.Unmarshal(raw, &ec); err != nil {
			return &Failure{Class: "replay/bad-file", What: err.Error()}
		}
		return checkEGInvariance(ec)
	case "canon-big":
		var bc bigCanonCase
		if err := json.Unmarshal(raw, &bc); err != nil {
			return &Failure{Class: "replay/bad-file", What: err.Error()}
		}
		return checkBigInvariance(bc)
	}
	return &Failure{Class: "replay/unsupported-kind", What: kind + ": re-run the check"}
}

func init() { register("C01", runC01, replayC01) }

var _ = bits.Len
