package main

// C04: a saved search resumes with exactly the remaining graphs (crash-point enumeration over every
// position between two Next calls, plus save/load chains).

import (
	"bytes"
	"encoding/json"
	"errors"
	"fmt"
	"sort"

	"github.com/Tom-Johnston/mamba/graph"
	"github.com/Tom-Johnston/mamba/graph/search"
)

type saveCase struct {
	N     int    `json:"n"`
	A     int    `json:"a"`
	M     int    `json:"m"`
	Pred  string `json:"predicate"`
	Place string `json:"placement"`
	K     int    `json:"save_after_k_graphs"` // T+1 = after exhaustion was reported
	J     int    `json:"then_advance_j,omitempty"`
	Chain bool   `json:"chain,omitempty"`
	Early *int   `json:"earlier_discarded_save_after,omitempty"` // a Save taken (and thrown away) at this earlier position
	// EarlyFail: the earlier save goes to a writer that fails (1: rejects everything, 2: accepts 10 bytes and then
	// fails); whatever Save does about it (panic, recovered here), later saves must be complete and current
	EarlyFail int `json:"earlier_save_writer_fails,omitempty"`
}

type failingWriter struct{ accept int }

func (w *failingWriter) Write(p []byte) (int, error) {
	if len(p) <= w.accept {
		w.accept -= len(p)
		return len(p), nil
	}
	n := w.accept
	w.accept = 0
	return n, errors.New("injected write failure")
}

func earlyDesc(sc saveCase) string {
	if sc.Early == nil {
		return ""
	}
	d := fmt.Sprintf(", earlier discarded save after %d", *sc.Early)
	if sc.EarlyFail > 0 {
		d += " into a failing writer"
	}
	return d
}

func (sc saveCase) cfg() searchCfg {
	return searchCfg{N: sc.N, M: sc.M, Pred: sc.Pred, Place: sc.Place}
}

func loadIter(sc saveCase, data []byte) *search.GraphIterator {
	p := predByName(sc.Pred)
	pre, pr := noPrune, noPrune
	switch sc.Place {
	case "preprune":
		pre = pruneFn(p)
	case "prune":
		pr = pruneFn(p)
	case "both":
		pre, pr = pruneFn(p), pruneFn(p)
	}
	return search.Load(bytes.NewReader(data), pre, pr)
}

func drain(it *search.GraphIterator, n int, limit int) ([]string, string) {
	if limit < 400000 {
		limit = 400000
	}
	var out []string
	for it.Next() {
		mask, prob := valueMask(it, n)
		if prob != "" {
			return out, prob
		}
		out = append(out, g6(n, mask))
		if len(out) > limit {
			return out, "yields more graphs than the uninterrupted run"
		}
	}
	return out, ""
}

func fullTrace(sc saveCase) ([]string, string) {
	it := makeIter(sc.cfg(), sc.A)
	return drain(it, sc.N, 20000)
}

func advance(it *search.GraphIterator, n, k int) ([]string, bool, string) {
	var out []string
	for i := 0; i < k; i++ {
		if !it.Next() {
			return out, false, ""
		}
		mask, prob := valueMask(it, n)
		if prob != "" {
			return out, true, prob
		}
		out = append(out, g6(n, mask))
	}
	return out, true, ""
}

func sameStrs(a, b []string) bool {
	if len(a) != len(b) {
		return false
	}
	for i := range a {
		if a[i] != b[i] {
			return false
		}
	}
	return true
}

func evalSave(sc saveCase, trace []string) *Failure {
	n := sc.N
	mk := func(cl, what string) *Failure {
		return &Failure{Class: "search-save/" + cl, What: fmt.Sprintf("n=%d a=%d m=%d %s/%s save after %d (then advance %d, chain=%v%s): %s", n, sc.A, sc.M, sc.Pred, sc.Place, sc.K, sc.J, sc.Chain, earlyDesc(sc), what), Kind: "save", Replay: sc}
	}
	var f *Failure
	msg, pan := try(func() {
		if trace == nil {
			var prob string
			trace, prob = fullTrace(sc)
			if prob != "" {
				f = mk("uninterrupted-run-malformed", prob)
				return
			}
		}
		T := len(trace)
		orig := makeIter(sc.cfg(), sc.A)
		k := sc.K
		if k > T {
			k = T
		}
		if sc.Early != nil {
			// an earlier save of the same iterator, discarded: later saves must not be influenced by it
			e := *sc.Early
			if e > k {
				e = k
			}
			pre, _, _ := advance(orig, n, e)
			var junk bytes.Buffer
			switch sc.EarlyFail {
			case 0:
				orig.Save(&junk)
			case 1:
				try(func() { orig.Save(&failingWriter{}) })
			default:
				try(func() { orig.Save(&failingWriter{accept: 10}) })
			}
			rest0, _, _ := advance(orig, n, k-e)
			if sc.K == T+1 && e <= T {
				// continue to exhaustion below
			}
			if !sameStrs(append(pre, rest0...), trace[:k]) {
				f = mk("nondeterministic-run", "run with an intermediate save differs")
				return
			}
		}
		var got []string
		var prob string
		if sc.Early == nil {
			got, _, prob = advance(orig, n, k)
		} else {
			got = trace[:k]
		}
		if prob != "" || !sameStrs(got, trace[:k]) {
			f = mk("nondeterministic-run", "a second uninterrupted run differs: "+prob)
			return
		}
		_ = got
		if sc.K == T+1 {
			if orig.Next() {
				f = mk("nondeterministic-run", "longer second run")
				return
			}
		}
		rest := trace[k:]
		var buf1, buf2 bytes.Buffer
		orig.Save(&buf1)
		saved := append([]byte{}, buf1.Bytes()...)
		// the same writer value used again straight away (a drained buffer, a rewritten checkpoint file): the second
		// save into the emptied buf1 must be a complete record of its own
		buf1.Reset()
		orig.Save(&buf1)
		if !bytes.Equal(buf1.Bytes(), saved) {
			f = mk("save-not-repeatable", "a second save into the same (emptied) writer differs from the first save at the same point")
			return
		}
		orig.Save(&buf2)
		if !bytes.Equal(buf1.Bytes(), buf2.Bytes()) {
			f = mk("save-not-repeatable", "two saves at the same point differ")
			return
		}
		loaded := loadIter(sc, saved)
		if sc.Chain {
			// advance the loaded iterator j steps, save again, load, drain
			j := sc.J
			if j > len(rest) {
				j = len(rest)
			}
			g1, _, prob := advance(loaded, n, j)
			if prob != "" || !sameStrs(g1, rest[:j]) {
				f = mk("loaded-iterator-wrong-output", fmt.Sprintf("after load: got %v want %v %s", g1, rest[:j], prob))
				return
			}
			var buf3 bytes.Buffer
			loaded.Save(&buf3)
			second := loadIter(sc, buf3.Bytes())
			g2, prob := drain(second, n, T+5)
			if prob != "" || !sameStrs(g2, rest[j:]) {
				f = mk("chain/second-load-wrong-output", fmt.Sprintf("got %d graphs %.60v, want %d %.60v %s", len(g2), g2, len(rest)-j, rest[j:], prob))
				return
			}
			// the first loaded iterator is undisturbed by its own Save
			g3, prob := drain(loaded, n, T+5)
			if prob != "" || !sameStrs(g3, rest[j:]) {
				f = mk("chain/save-disturbs-iterator", fmt.Sprintf("got %d graphs, want %d %s", len(g3), len(rest)-j, prob))
				return
			}
			return
		}
		// alternate the loaded iterator and the original: both must produce the remaining sequence
		var gl, go_ []string
		la, oa := true, true
		for (la || oa) && len(gl) <= T+5 && len(go_) <= T+5 {
			if la {
				if loaded.Next() {
					mask, prob := valueMask(loaded, n)
					if prob != "" {
						f = mk("loaded-iterator-malformed-value", prob)
						return
					}
					gl = append(gl, g6(n, mask))
				} else {
					la = false
				}
			}
			if oa {
				if orig.Next() {
					mask, prob := valueMask(orig, n)
					if prob != "" {
						f = mk("original-malformed-value-after-save", prob)
						return
					}
					go_ = append(go_, g6(n, mask))
				} else {
					oa = false
				}
			}
		}
		if !sameStrs(gl, rest) {
			cl := "loaded-iterator-wrong-output"
			if sc.K == T+1 {
				cl += "/saved-after-exhaustion"
			} else if sc.K == 0 {
				cl += "/saved-before-first-next"
			}
			f = mk(cl, fmt.Sprintf("loaded iterator yields %d graphs %.80v, the original had %d left %.80v", len(gl), gl, len(rest), rest))
			return
		}
		if !sameStrs(go_, rest) {
			f = mk("save-or-load-disturbs-original", fmt.Sprintf("original yields %d graphs after Save/Load, expected %d", len(go_), len(rest)))
			return
		}
		// a second load from the same bytes is again a fresh, independent iterator
		again := loadIter(sc, saved)
		ga, prob := drain(again, n, T+5)
		if prob != "" || !sameStrs(ga, rest) {
			f = mk("second-load-of-same-bytes-differs", fmt.Sprintf("%d vs %d graphs %s", len(ga), len(rest), prob))
		}
	})
	if pan {
		cl := "panic"
		return mk(cl, msg)
	}
	return f
}

// c04Deep: n = 9 (274 668 graphs): the positions where the saved state is largest (deepest pending-choice stack),
// found by saving at every 25th position, plus evenly spread ones; full comparison of the resumed sequence.
func c04Deep(c *Ctx) {
	sc := saveCase{N: 9, A: 0, M: 1, Pred: "none", Place: "none"}
	it := makeIter(sc.cfg(), 0)
	var trace []string
	type sized struct{ k, size int }
	var sizes []sized
	for k := 0; ; k++ {
		if k%25 == 0 {
			var buf bytes.Buffer
			it.Save(&buf)
			sizes = append(sizes, sized{k, buf.Len()})
		}
		if !it.Next() {
			break
		}
		mask, prob := valueMask(it, 9)
		if prob != "" {
			c.Fail(&Failure{Class: "search-save/uninterrupted-run-malformed", What: prob, Kind: "save", Replay: sc})
			return
		}
		trace = append(trace, g6(9, mask))
	}
	T := len(trace)
	if T != 274668 {
		c.HarnessError("All(9,0,1) yields %d graphs", T)
		return
	}
	sort.Slice(sizes, func(i, j int) bool { return sizes[i].size > sizes[j].size })
	top, spread := 12, 8
	if c.Thorough() {
		top, spread = 120, 60
	}
	pos := map[int]bool{}
	for i := 0; i < top && i < len(sizes); i++ {
		pos[sizes[i].k] = true
	}
	for i := 0; i < spread; i++ {
		pos[(i*T)/spread+i] = true
	}
	var ks []int
	for k := range pos {
		ks = append(ks, k)
	}
	sort.Ints(ks)
	c.parFor(int64(len(ks)), 1, func(lo, hi int64) {
		for _, k := range ks[lo:hi] {
			s2 := sc
			s2.K = k
			c.Check(func() *Failure { return evalSave(s2, trace) })
			c.States(1)
			c.Nontrivial(1)
		}
	})
	c.SetCount("n9_positions", int64(len(ks)))
	c.SetCount("n9_largest_saved_state_bytes", int64(sizes[0].size))
}

func runC04(c *Ctx) {
	c.Level = "exploration"
	c.Rule = "crash-point enumeration: for every configuration (n<=7 (8 thorough, interior positions thinned); (a,m) in {(0,1),(0,2),(1,2),(2,3)}; predicate none / triangle-free as prune / maxdeg<=2 as preprune / claw-free as both) and EVERY save position k in [0,T+1] (T = length of the uninterrupted output; T+1 = after exhaustion): Save twice (bytes equal), Load, then advance loaded and original alternately: both must yield exactly o_{k+1}..o_T in order; a second Load of the same bytes too; chains (save at k, load, advance j, save, load, drain) for every (k,j) with n<=5 (thinned in j for n=6); non-trivial = position with at least one graph before and after it"
	maxN, chainN := 7, 6
	if c.Thorough() {
		maxN, chainN = 8, 6
	}
	type base struct {
		sc    saveCase
		trace []string
	}
	var bases []base
	for n := 0; n <= maxN; n++ {
		for _, am := range [][2]int{{0, 1}, {0, 2}, {1, 2}, {2, 3}} {
			for _, pp := range [][2]string{{"none", "none"}, {"triangle-free", "prune"}, {"maxdeg<=2", "preprune"}, {"claw-free", "both"}} {
				sc := saveCase{N: n, A: am[0], M: am[1], Pred: pp[0], Place: pp[1]}
				tr, prob := fullTrace(sc)
				if prob != "" {
					c.Fail(&Failure{Class: "search-save/uninterrupted-run-malformed", What: prob, Kind: "save", Replay: sc})
					continue
				}
				bases = append(bases, base{sc, tr})
			}
		}
	}
	type job struct {
		sc    saveCase
		trace []string
	}
	var jobs []job
	for _, b := range bases {
		T := len(b.trace)
		for k := 0; k <= T+1; k++ {
			if b.sc.N >= 8 && k > 40 && k < T-40 && k%211 != 0 {
				continue // n = 8 (thorough): positions thinned in the interior (stated bound)
			}
			sc := b.sc
			sc.K = k
			jobs = append(jobs, job{sc, b.trace})
		}
		if b.sc.N <= 5 {
			// an earlier, discarded save at e, then the save under test at k (every pair; k = T+1 included)
			for k := 0; k <= T+1; k++ {
				for e := 0; e <= k && e <= T; e++ {
					if T > 40 && e%5 != 0 && e != k {
						continue
					}
					sc := b.sc
					sc.K = k
					ee := e
					sc.Early = &ee
					jobs = append(jobs, job{sc, b.trace})
					if e%3 == 0 || e == k {
						for fw := 1; fw <= 2; fw++ {
							sc2 := sc
							sc2.EarlyFail = fw
							jobs = append(jobs, job{sc2, b.trace})
						}
					}
				}
			}
		}
		if b.sc.N <= chainN {
			for k := 0; k <= T; k++ {
				for j := 0; j <= T-k; j++ {
					if T > 60 && (j%7 != 0 && j != T-k && j != 1) {
						continue
					}
					sc := b.sc
					sc.K, sc.J, sc.Chain = k, j, true
					jobs = append(jobs, job{sc, b.trace})
				}
			}
		}
	}
	c.parFor(int64(len(jobs)), 8, func(lo, hi int64) {
		for _, jb := range jobs[lo:hi] {
			jb := jb
			if c.Expired() {
				return
			}
			c.Check(func() *Failure { return evalSave(jb.sc, jb.trace) })
			c.States(1)
			c.Trans(int64(len(jb.trace)) + 2)
			if jb.sc.K > 0 && jb.sc.K < len(jb.trace) {
				c.Nontrivial(1)
			}
		}
	})
	if c.Expired() {
		c.CapHit("deadline")
	}
	c04Deep(c)
	c04SinglePass(c)
	c.SetCount("configurations", int64(len(bases)))
	c.SetCount("save_positions_and_chains", int64(len(jobs)))
	c.Sample("save", saveCase{N: 5, A: 0, M: 2, Pred: "triangle-free", Place: "prune", K: 3})
	c.Sample("chain", saveCase{N: 4, A: 0, M: 1, Pred: "none", Place: "none", K: 2, J: 3, Chain: true})
	_ = graph.Equal
}

// c04SinglePass: one pass over a long run; at EVERY position the iterator is saved, the bytes are loaded, and the
// loaded iterator's next `look` outputs (and its exhaustion) are compared with the uninterrupted run. Linear in the
// length of the run, so it reaches n = 10 (path entries and choice counts beyond one byte) and all of n = 9.
type passCase struct {
	N     int    `json:"n"`
	Pred  string `json:"predicate"`
	Place string `json:"placement"`
	Look  int    `json:"look_ahead"`
	Only  int    `json:"only_position,omitempty"` // replay: check just this position (1-based; 0 = all)
}

func evalPass(pc passCase) *Failure {
	sc := saveCase{N: pc.N, A: 0, M: 1, Pred: pc.Pred, Place: pc.Place}
	mk := func(k int, cl, what string) *Failure {
		r := pc
		r.Only = k + 1
		return &Failure{Class: "search-save/single-pass/" + cl, What: fmt.Sprintf("n=%d %s/%s save after %d graphs: %s", pc.N, pc.Pred, pc.Place, k, what), Kind: "save-pass", Replay: r}
	}
	var f *Failure
	msg, pan := try(func() {
		it := makeIter(sc.cfg(), 0)
		var trace []string
		for it.Next() {
			mask, prob := valueMask(it, pc.N)
			if prob != "" {
				f = mk(len(trace), "uninterrupted-run-malformed", prob)
				return
			}
			trace = append(trace, g6(pc.N, mask))
			if len(trace) > 20000000 {
				break
			}
		}
		T := len(trace)
		orig := makeIter(sc.cfg(), 0)
		for k := 0; k <= T; k++ {
			if pc.Only == 0 || pc.Only == k+1 {
				var buf bytes.Buffer
				var loaded *search.GraphIterator
				var got []string
				var more bool
				var prob string
				m2, p2 := try(func() {
					orig.Save(&buf)
					loaded = search.Load(bytes.NewReader(buf.Bytes()), pickPre(sc), pickPrune(sc))
					got, more, prob = advance(loaded, pc.N, pc.Look)
				})
				if p2 {
					f = mk(k, "panic", m2)
					return
				}
				want := trace[k:]
				if len(want) > pc.Look {
					want = want[:pc.Look]
				}
				if prob != "" || !sameStrs(got, want) || (more != (len(want) == pc.Look)) {
					f = mk(k, "loaded-iterator-wrong-output", fmt.Sprintf("loaded iterator continues %v (more=%v) %s, the run continues %v", got, more, prob, want))
					return
				}
			}
			if k < T {
				if !orig.Next() {
					f = mk(k, "original-disturbed-by-save", "the saved iterator stops early")
					return
				}
				if mask, _ := valueMask(orig, pc.N); g6(pc.N, mask) != trace[k] {
					f = mk(k, "original-disturbed-by-save", fmt.Sprintf("the saved iterator yields %s, the uninterrupted run %s", g6(pc.N, mask), trace[k]))
					return
				}
			}
		}
	})
	if pan {
		return mk(0, "panic", msg)
	}
	return f
}

func pickPre(sc saveCase) func(*graph.DenseGraph) bool {
	if sc.Place == "preprune" || sc.Place == "both" {
		return pruneFn(predByName(sc.Pred))
	}
	return noPrune
}

func pickPrune(sc saveCase) func(*graph.DenseGraph) bool {
	if sc.Place == "prune" || sc.Place == "both" {
		return pruneFn(predByName(sc.Pred))
	}
	return noPrune
}

func c04SinglePass(c *Ctx) {
	cases := []passCase{
		{N: 10, Pred: "at-most-10-non-edges", Place: "prune", Look: 3},
		{N: 10, Pred: "at-most-10-non-edges", Place: "preprune", Look: 2},
		{N: 10, Pred: "at-most-8-edges", Place: "prune", Look: 3},
		{N: 9, Pred: "at-most-10-non-edges", Place: "both", Look: 3},
		{N: 8, Pred: "none", Place: "none", Look: 2},
	}
	if c.Thorough() {
		cases = append(cases, passCase{N: 9, Pred: "none", Place: "none", Look: 2}, passCase{N: 10, Pred: "triangle-free", Place: "prune", Look: 2}, passCase{N: 11, Pred: "at-most-10-non-edges", Place: "prune", Look: 2})
	}
	c.parFor(int64(len(cases)), 1, func(lo, hi int64) {
		for _, pc := range cases[lo:hi] {
			pc := pc
			c.Check(func() *Failure { return evalPass(pc) })
			c.Nontrivial(1)
		}
	})
	c.SetCount("single_pass_runs", int64(len(cases)))
}

func replayC04(kind string, raw json.RawMessage) *Failure {
	if kind == "save-pass" {
		var pc passCase
		if err := json.Unmarshal(raw, &pc); err != nil {
			return &Failure{Class: "replay/bad-file", What: err.Error()}
		}
		return evalPass(pc)
	}
	if kind != "save" {
		return unsupportedKind(kind)
	}
	var sc saveCase
	if err := json.Unmarshal(raw, &sc); err != nil {
		return &Failure{Class: "replay/bad-file", What: err.Error()}
	}
	return evalSave(sc, nil)
}

func init() { register("C04", runC04, replayC04) }
