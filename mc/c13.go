package main

// C13: DAWG search returns exactly the matching words with their ranks, in order; searches leave the
// Dawg and the searchers unchanged (repeating with the same objects gives the same result).

import (
	"encoding/json"
	"fmt"
	"sort"
	"strings"

	"github.com/Tom-Johnston/mamba/dawg"
)

type searchCase struct {
	Words   []string `json:"words"`
	Pattern *string  `json:"pattern,omitempty"`
	Anagram *string  `json:"anagram,omitempty"`
	Blank   string   `json:"blank"`
	Rejects bool     `json:"built_with_rejected_adds,omitempty"`
	// ViaDecode: the Dawg searched is the result of GobDecode into a receiver that held another word set (with the
	// empty word) before - "for every Dawg" includes decoded ones
	ViaDecode bool `json:"decoded_into_used_receiver,omitempty"`
}

type searchCaseJSON searchCase

func (sc searchCase) MarshalJSON() ([]byte, error) {
	x := searchCaseJSON(sc)
	x.Words, x.Blank = lat1encAll(sc.Words), lat1enc(sc.Blank)
	if sc.Pattern != nil {
		x.Pattern = sp(lat1enc(*sc.Pattern))
	}
	if sc.Anagram != nil {
		x.Anagram = sp(lat1enc(*sc.Anagram))
	}
	return json.Marshal(x)
}

func (sc *searchCase) UnmarshalJSON(b []byte) error {
	var x searchCaseJSON
	if err := json.Unmarshal(b, &x); err != nil {
		return err
	}
	x.Words, x.Blank = lat1decAll(x.Words), lat1dec(x.Blank)
	if x.Pattern != nil {
		x.Pattern = sp(lat1dec(*x.Pattern))
	}
	if x.Anagram != nil {
		x.Anagram = sp(lat1dec(*x.Anagram))
	}
	*sc = searchCase(x)
	return nil
}

func patternMatches(w, pat string, blank byte) bool {
	if len(w) != len(pat) {
		return false
	}
	for i := 0; i < len(w); i++ {
		if pat[i] != blank && pat[i] != w[i] {
			return false
		}
	}
	return true
}

func anagramMatches(w, ana string, blank byte) bool {
	if len(w) != len(ana) {
		return false
	}
	cnt := map[byte]int{}
	blanks := 0
	for i := 0; i < len(ana); i++ {
		if ana[i] == blank {
			blanks++
		} else {
			cnt[ana[i]]++
		}
	}
	need := 0
	for i := 0; i < len(w); i++ {
		if cnt[w[i]] > 0 {
			cnt[w[i]]--
		} else {
			need++
		}
	}
	return need <= blanks
}

// buildWithRejects builds the Dawg of sc.Words through a Builder that is also offered duplicates and smaller
// words in between (all of which must be rejected and must not change what is built).
func buildWithRejects(words []string) (*dawg.Dawg, error) {
	db := new(dawg.Builder)
	for i, w := range words {
		if err := db.Add([]byte(w)); err != nil {
			return nil, err
		}
		db.Add([]byte(w)) // duplicate: rejected
		if i > 0 {
			db.Add([]byte(words[i-1])) // smaller than the last word: rejected
			db.Add([]byte(words[0]))
		}
	}
	return db.Finish()
}

func evalSearch(sc searchCase, d *dawg.Dawg, before string) *Failure {
	mk := func(cl, what string) *Failure {
		kind := ""
		if sc.Pattern != nil {
			kind += "pattern"
		}
		if sc.Anagram != nil {
			if kind != "" {
				kind += "+"
			}
			kind += "anagram"
		}
		if kind == "" {
			kind = "no-searchers"
		}
		p, a := "-", "-"
		if sc.Pattern != nil {
			p = *sc.Pattern
		}
		if sc.Anagram != nil {
			a = *sc.Anagram
		}
		return &Failure{Class: "dawg/search/" + kind + "/" + cl, What: fmt.Sprintf("words %q pattern %q anagram %q blank %q: %s", sc.Words, p, a, sc.Blank, what), Kind: "dawg-search", Replay: sc}
	}
	if d == nil {
		var err error
		if msg, p := try(func() {
			if sc.Rejects {
				d, err = buildWithRejects(sc.Words)
			} else {
				d, err = dawg.New(toBytes(sc.Words, false))
			}
		}); p || err != nil {
			return mk("build-failed", fmt.Sprint(msg, err))
		}
		if sc.ViaDecode {
			if msg, p := try(func() {
				var enc []byte
				enc, err = d.GobEncode()
				if err != nil {
					return
				}
				r, _ := dawg.New(toBytes([]string{"", "q", "qq"}, false))
				r.Search()
				err = r.GobDecode(enc)
				d = r
			}); p || err != nil {
				return mk("build-failed", "decode into a used receiver: "+fmt.Sprint(msg, err))
			}
		}
	}
	blank := sc.Blank[0]
	var searchers []dawg.Searcher
	if sc.Anagram != nil {
		arg := []byte(*sc.Anagram)
		searchers = append(searchers, dawg.NewAnagramSearcher(arg, blank))
		if string(arg) != *sc.Anagram {
			return mk("argument-modified", "NewAnagramSearcher changed its argument")
		}
	}
	if sc.Pattern != nil {
		searchers = append(searchers, dawg.NewPatternSearcher([]byte(*sc.Pattern), blank))
	}
	var wantW []string
	var wantR []int
	for i, w := range sc.Words {
		if sc.Pattern != nil && !patternMatches(w, *sc.Pattern, blank) {
			continue
		}
		if sc.Anagram != nil && !anagramMatches(w, *sc.Anagram, blank) {
			continue
		}
		wantW = append(wantW, w)
		wantR = append(wantR, i)
	}
	if before == "" {
		before = snapshotDawg(d).Dump
	}
	for round := 0; round < 2; round++ {
		var sol [][]byte
		var ids []int
		if msg, p := try(func() { sol, ids = d.Search(searchers...) }); p {
			return mk("panic", fmt.Sprintf("round %d: %s", round, msg))
		}
		gotW := make([]string, len(sol))
		for i, s := range sol {
			gotW[i] = string(s)
		}
		cl := "wrong-words"
		if round == 1 {
			cl = "second-search-differs"
		}
		if len(gotW) != len(wantW) || len(ids) != len(gotW) {
			return mk(cl, fmt.Sprintf("round %d: got %q ids %v, want %q ids %v", round, gotW, ids, wantW, wantR))
		}
		for i := range gotW {
			if gotW[i] != wantW[i] {
				return mk(cl, fmt.Sprintf("round %d: got %q want %q", round, gotW, wantW))
			}
			if ids[i] != wantR[i] {
				return mk("wrong-rank", fmt.Sprintf("round %d: words %q ids %v want %v", round, gotW, ids, wantR))
			}
		}
	}
	if after := snapshotDawg(d).Dump; after != before {
		return mk("dawg-modified", "the automaton changed during Search")
	}
	return nil
}

func sp(s string) *string { return &s }

func bytesRepeat(b byte, n int) []byte {
	out := make([]byte, n)
	for i := range out {
		out[i] = b
	}
	return out
}

func dedupSorted(ws []string) []string {
	sort.Strings(ws)
	out := ws[:0]
	for i, w := range ws {
		if i == 0 || w != ws[i-1] {
			out = append(out, w)
		}
	}
	return out
}

func runC13(c *Ctx) {
	c.Level = "exploration"
	c.Rule = "every subset of the words of length <=3 over {a,b} (32768 sets) x every pattern of length <=4 over {a,b,c,?} and every anagram letter sequence of length <=4 over the same symbols (blank '?'; a slice also with blank 'a'), and pattern+anagram pairs of length <=2 (<=3 thorough) on every subset of the 7 words of length <=2; each search run twice with the same searcher objects; expected = sorted word list filtered by the definition, ranks = positions; Dawg snapshot compared before/after; non-trivial = query with at least one match"
	queries := wordsUpTo([]byte("abc?"), 4)
	u3 := wordsUpTo([]byte("ab"), 3)
	total := int64(1) << uint(len(u3))
	stride := int64(8) // quick: an eighth of the word sets for the full query battery, all sets for the short queries
	if c.Thorough() {
		stride = 1
	}
	short := wordsUpTo([]byte("abc?"), 2)
	c.parFor(total, 16, func(lo, hi int64) {
		for s := lo; s < hi; s++ {
			ws := subsetOf(u3, uint64(s))
			d, err := dawg.New(toBytes(ws, false))
			if err != nil {
				continue
			}
			before := snapshotDawg(d).Dump
			qs := short
			if s%stride == 0 {
				qs = queries
			}
			for _, q := range qs {
				q := q
				for _, blank := range []string{"?", "a"} {
					if blank == "a" && s%8 != 0 {
						continue
					}
					scP := searchCase{Words: ws, Pattern: sp(q), Blank: blank}
					if c.Check(func() *Failure { return evalSearch(scP, d, before) }) && len(ws) > 0 {
						c.Nontrivial(1)
					}
					scA := searchCase{Words: ws, Anagram: sp(q), Blank: blank}
					c.Check(func() *Failure { return evalSearch(scA, d, before) })
				}
			}
			// no searchers at all: every word matches
			sc0 := searchCase{Words: ws, Blank: "?"}
			c.Check(func() *Failure { return evalSearch(sc0, d, before) })
		}
	})
	// pattern and anagram together
	u2 := wordsUpTo([]byte("ab"), 2)
	pl := 2
	if c.Thorough() {
		pl = 3
	}
	pq := wordsUpTo([]byte("abc?"), pl)
	total2 := int64(1) << uint(len(u2))
	c.parFor(total2, 1, func(lo, hi int64) {
		for s := lo; s < hi; s++ {
			ws := subsetOf(u2, uint64(s))
			d, err := dawg.New(toBytes(ws, false))
			if err != nil {
				continue
			}
			before := snapshotDawg(d).Dump
			for _, p := range pq {
				for _, a := range pq {
					sc := searchCase{Words: ws, Pattern: sp(p), Anagram: sp(a), Blank: "?"}
					c.Check(func() *Failure { return evalSearch(sc, d, before) })
					c.Nontrivial(1)
				}
			}
		}
	})
	// wide nodes (ranks are accumulated over skipped links, so link-count dependent code paths matter)
	var wideCases []searchCase
	for _, b := range []int{0, 1, 2, 7, 8, 9, 10, 15, 16, 17, 31, 32, 33, 63, 64, 65, 127, 128, 129, 200, 256} {
		if b > 70 && !c.Thorough() && b != 128 {
			continue
		}
		for variant := 0; variant < 4; variant++ {
			var ws []string
			if variant&1 == 1 {
				ws = append(ws, "")
			}
			for i := 0; i < b; i++ {
				l := byte(i)
				ws = append(ws, string([]byte{l}))
				if variant >= 2 && (i%5 == 0 || i == b-1) {
					for j := 0; j < b && j < 10; j++ {
						ws = append(ws, string([]byte{l, byte(j * (b/10 + 1) % b)}))
					}
				}
			}
			ws = dedupSorted(ws)
			blank := "\xfe"
			qs := []string{"", blank, blank + blank, blank + blank + blank}
			for _, i := range []int{0, b / 2, b - 1} {
				if i >= 0 && i < b {
					qs = append(qs, string([]byte{byte(i)}), string([]byte{byte(i)})+blank, blank+string([]byte{byte(i)}), string([]byte{byte(i), byte(i)}))
				}
			}
			for _, q := range qs {
				wideCases = append(wideCases, searchCase{Words: ws, Pattern: sp(q), Blank: blank})
				wideCases = append(wideCases, searchCase{Words: ws, Anagram: sp(q), Blank: blank})
			}
		}
	}
	// Dawgs built through a Builder that was also offered duplicates / out-of-order words (rejected): ranks must be unaffected
	for s := int64(0); s < total; s += 7 {
		ws := subsetOf(u3, uint64(s))
		for _, q := range []string{"?", "??", "???", "a?", "?b?"} {
			wideCases = append(wideCases, searchCase{Words: ws, Pattern: sp(q), Blank: "?", Rejects: true})
			wideCases = append(wideCases, searchCase{Words: ws, Anagram: sp(q), Blank: "?", Rejects: true})
		}
	}
	// long words and anagram letter lists with 9 and more distinct letters, given in many orders
	longDict := dedupSorted([]string{"abcdefghi", "abcdefghij", "bcadefghi", "ihgfedcba", "aabcdefgh", "triangles", "integrals", "relatings", "alertings", "abcdefghijk", "kjihgfedcba", "aabbccddee", "abcdefghh", "zyxwvutsr"})
	for _, base := range []string{"abcdefghi", "aabcdefgh", "triangles", "abcdefghij", "abcdefghijk", "aabbccddee", "abcdefghh"} {
		b := []byte(base)
		orders := [][]byte{append([]byte{}, b...)}
		rev := append([]byte{}, b...)
		for i, j := 0, len(rev)-1; i < j; i, j = i+1, j-1 {
			rev[i], rev[j] = rev[j], rev[i]
		}
		orders = append(orders, rev)
		for r := 1; r < len(b); r += 2 {
			orders = append(orders, append(append([]byte{}, b[r:]...), b[:r]...))
		}
		for s := 1; s <= 6; s++ {
			p := lcgPerm(len(b), uint64(s)*131)
			o := make([]byte, len(b))
			for i := range o {
				o[i] = b[p[i]]
			}
			orders = append(orders, o)
		}
		for _, o := range orders {
			wideCases = append(wideCases, searchCase{Words: longDict, Anagram: sp(string(o)), Blank: "?"})
			withBlank := append([]byte{}, o...)
			withBlank[len(withBlank)/2] = '?'
			wideCases = append(wideCases, searchCase{Words: longDict, Anagram: sp(string(withBlank)), Blank: "?"})
			wideCases = append(wideCases, searchCase{Words: longDict, Anagram: sp(string(o)), Pattern: sp(string(bytesRepeat('?', len(o)))), Blank: "?"})
		}
	}
	// deep automata: words of 30..70 letters (the search keeps a stack entry per letter), searched with no searcher,
	// with all-blank patterns of the same lengths and with anagram letter lists; and small sets searched after a
	// decode into a used receiver
	{
		rep := func(unit string, k int) string { return strings.Repeat(unit, k) }
		var deep []string
		for _, k := range []int{30, 31, 32, 33, 34, 40, 63, 64, 65, 70} {
			deep = append(deep, rep("a", k))
		}
		deep = append(deep, rep("a", 31)+"b", rep("a", 32)+"b", rep("a", 32)+"ba", rep("ab", 16), rep("ab", 17), rep("ab", 20)+"c", rep("b", 33), "b"+rep("a", 35))
		deep = dedupSorted(deep)
		wideCases = append(wideCases, searchCase{Words: deep, Blank: "?"})
		wideCases = append(wideCases, searchCase{Words: []string{rep("a", 32)}, Blank: "?"}, searchCase{Words: []string{rep("a", 31)}, Blank: "?"}, searchCase{Words: []string{"", rep("a", 33), rep("a", 33) + "b"}, Blank: "?"})
		for _, L := range []int{30, 31, 32, 33, 34, 35, 36, 41, 64, 65, 66} {
			wideCases = append(wideCases, searchCase{Words: deep, Pattern: sp(rep("?", L)), Blank: "?"})
			wideCases = append(wideCases, searchCase{Words: deep, Pattern: sp(rep("a", L)), Blank: "?"})
			wideCases = append(wideCases, searchCase{Words: deep, Anagram: sp(rep("a", L)), Blank: "?"})
			wideCases = append(wideCases, searchCase{Words: deep, Anagram: sp(rep("a", L-1) + "?"), Blank: "?"})
			wideCases = append(wideCases, searchCase{Words: deep, Anagram: sp("b" + rep("a", L-1)), Pattern: sp(rep("?", L)), Blank: "?"})
		}
		for s := int64(0); s < total; s += 5 {
			ws := subsetOf(u3, uint64(s))
			wideCases = append(wideCases, searchCase{Words: ws, Blank: "?", ViaDecode: true})
			for _, q := range []string{"", "?", "??", "a?"} {
				wideCases = append(wideCases, searchCase{Words: ws, Pattern: sp(q), Blank: "?", ViaDecode: true})
				wideCases = append(wideCases, searchCase{Words: ws, Anagram: sp(q), Blank: "?", ViaDecode: true})
			}
		}
	}
	c.parFor(int64(len(wideCases)), 4, func(lo, hi int64) {
		for _, sc := range wideCases[lo:hi] {
			sc := sc
			c.Check(func() *Failure { return evalSearch(sc, nil, "") })
			c.Nontrivial(1)
		}
	})
	c.SetCount("wide_node_queries", int64(len(wideCases)))
	c.SetCount("queries_full", int64(len(queries)))
	c.SetCount("word_sets", total)
	c.Sample("pattern", searchCase{Words: []string{"a", "ab", "abb", "bab"}, Pattern: sp("?b?"), Blank: "?"})
	c.Sample("anagram", searchCase{Words: []string{"a", "ab", "abb", "bab"}, Anagram: sp("b?a"), Blank: "?"})
	c.Assume("searchers are the library's PatternSearcher and AnagramSearcher; custom Searcher implementations are outside the check")
}

func replayC13(kind string, raw json.RawMessage) *Failure {
	if kind != "dawg-search" {
		return unsupportedKind(kind)
	}
	var sc searchCase
	if err := json.Unmarshal(raw, &sc); err != nil {
		return &Failure{Class: "replay/bad-file", What: err.Error()}
	}
	return evalSearch(sc, nil, "")
}

func init() { register("C13", runC13, replayC13) }
