package main

// C01, part 2: named hard graphs with 10 <= n <= 16 (vertex-transitive, strongly regular, disconnected
// with isomorphic components) under every relabelling at bounded Cayley distance from the identity.

import (
	"fmt"
	"sync/atomic"
	"time"

	"github.com/Tom-Johnston/mamba/graph"
)

type BGr struct {
	n   int
	adj []uint64
}

func newBGr(n int) *BGr { return &BGr{n: n, adj: make([]uint64, n)} }

func (g *BGr) add(i, j int) {
	if i != j {
		g.adj[i] |= 1 << uint(j)
		g.adj[j] |= 1 << uint(i)
	}
}
func (g *BGr) has(i, j int) bool { return g.adj[i]>>uint(j)&1 == 1 }

func (g *BGr) relabel(p []int) *BGr { // vertex v becomes p[v]
	h := newBGr(g.n)
	for i := 0; i < g.n; i++ {
		for j := 0; j < i; j++ {
			if g.has(i, j) {
				h.add(p[i], p[j])
			}
		}
	}
	return h
}

func (g *BGr) complement() *BGr {
	h := newBGr(g.n)
	for i := 0; i < g.n; i++ {
		for j := 0; j < i; j++ {
			if !g.has(i, j) {
				h.add(i, j)
			}
		}
	}
	return h
}

func (g *BGr) union(o *BGr) *BGr {
	h := newBGr(g.n + o.n)
	for i := 0; i < g.n; i++ {
		for j := 0; j < i; j++ {
			if g.has(i, j) {
				h.add(i, j)
			}
		}
	}
	for i := 0; i < o.n; i++ {
		for j := 0; j < i; j++ {
			if o.has(i, j) {
				h.add(g.n+i, g.n+j)
			}
		}
	}
	return h
}

func (g *BGr) dense() *graph.DenseGraph {
	e := make([]byte, edgeCount(g.n))
	for j := 1; j < g.n; j++ {
		for i := 0; i < j; i++ {
			if g.has(i, j) {
				e[j*(j-1)/2+i] = 1
			}
		}
	}
	return graph.NewDense(g.n, e)
}

func (g *BGr) edgeList() [][2]int {
	var r [][2]int
	for j := 1; j < g.n; j++ {
		for i := 0; i < j; i++ {
			if g.has(i, j) {
				r = append(r, [2]int{i, j})
			}
		}
	}
	return r
}

func bgrFromEdges(n int, e [][2]int) *BGr {
	g := newBGr(n)
	for _, x := range e {
		g.add(x[0], x[1])
	}
	return g
}

func (g *BGr) key() string {
	b := make([]byte, 0, g.n*8)
	for _, r := range g.adj {
		b = append(b, byte(r), byte(r>>8), byte(r>>16), byte(r>>24), byte(r>>32), byte(r>>40), byte(r>>48), byte(r>>56))
	}
	return string(b)
}

func bigCanon(g *BGr) (string, string, string) {
	p, cl, what := canonTimed(g.dense())
	if cl != "" {
		return "", cl, what
	}
	if !isPerm(p, g.n) {
		return "", "canonical/not-a-permutation", fmt.Sprint(p)
	}
	// canonical graph h(i,j) = g(p[i],p[j])
	h := newBGr(g.n)
	for i := 0; i < g.n; i++ {
		for j := 0; j < i; j++ {
			if g.has(p[i], p[j]) {
				h.add(i, j)
			}
		}
	}
	return h.key(), "", ""
}

type bigCanonCase struct {
	Name  string   `json:"name"`
	N     int      `json:"n"`
	Edges [][2]int `json:"edges"`
	Perm  []int    `json:"relabelling"`
}

func checkBigInvariance(bc bigCanonCase) *Failure {
	g := bgrFromEdges(bc.N, bc.Edges)
	base, cl, what := bigCanon(g)
	if cl != "" {
		return &Failure{Class: cl, What: bc.Name + ": " + what, Kind: "canon-big", Replay: bc}
	}
	x, cl, what := bigCanon(g.relabel(bc.Perm))
	if cl != "" {
		return &Failure{Class: cl, What: bc.Name + " relabelled: " + what, Kind: "canon-big", Replay: bc}
	}
	if x != base {
		return &Failure{Class: "canonical/not-invariant-under-relabelling/named:" + bc.Name, What: fmt.Sprintf("%s (n=%d): relabelling %v changes the canonical graph", bc.Name, bc.N, bc.Perm), Kind: "canon-big", Replay: bc}
	}
	return nil
}

func circulant(n int, diffs ...int) *BGr {
	g := newBGr(n)
	for i := 0; i < n; i++ {
		for _, d := range diffs {
			g.add(i, (i+d)%n)
		}
	}
	return g
}

func cartesian(a, b *BGr) *BGr {
	g := newBGr(a.n * b.n)
	for i := 0; i < a.n; i++ {
		for j := 0; j < b.n; j++ {
			for k := 0; k < a.n; k++ {
				for l := 0; l < b.n; l++ {
					if (i == k && b.has(j, l)) || (j == l && a.has(i, k)) {
						g.add(i*b.n+j, k*b.n+l)
					}
				}
			}
		}
	}
	return g
}

func completeB(n int) *BGr {
	g := newBGr(n)
	for i := 0; i < n; i++ {
		for j := 0; j < i; j++ {
			g.add(i, j)
		}
	}
	return g
}

func hardGraphs() map[string]*BGr {
	m := map[string]*BGr{}
	pet := newBGr(10)
	for i := 0; i < 5; i++ {
		pet.add(i, (i+1)%5)
		pet.add(i, i+5)
		pet.add(5+i, 5+(i+2)%5)
	}
	m["petersen"] = pet
	m["paley9"] = cartesian(completeB(3), completeB(3))
	m["paley13"] = circulant(13, 1, 3, 4)
	q1 := completeB(2)
	q4 := cartesian(cartesian(q1, q1), cartesian(q1, q1))
	m["Q4"] = q4
	m["rook4x4"] = cartesian(completeB(4), completeB(4))
	shr := newBGr(16) // Shrikhande: Cayley graph of Z4xZ4 with +-(1,0), +-(0,1), +-(1,1)
	for a := 0; a < 4; a++ {
		for b := 0; b < 4; b++ {
			for _, d := range [][2]int{{1, 0}, {0, 1}, {1, 1}} {
				shr.add(a*4+b, ((a+d[0])%4)*4+(b+d[1])%4)
			}
		}
	}
	m["shrikhande"] = shr
	m["2K4"] = completeB(4).union(completeB(4))
	c4 := circulant(4, 1)
	m["4C4"] = c4.union(c4).union(c4.union(c4))
	m["3C4+K1"] = c4.union(c4).union(c4).union(completeB(1))
	m["circ12_1_5"] = circulant(12, 1, 5)
	m["circ10_1_4"] = circulant(10, 1, 4)
	m["circ11_1_3"] = circulant(11, 1, 3)
	kn := newBGr(15) // Kneser(6,2)
	var pairs [][2]int
	for a := 0; a < 6; a++ {
		for b := a + 1; b < 6; b++ {
			pairs = append(pairs, [2]int{a, b})
		}
	}
	for i := range pairs {
		for j := 0; j < i; j++ {
			if pairs[i][0] != pairs[j][0] && pairs[i][0] != pairs[j][1] && pairs[i][1] != pairs[j][0] && pairs[i][1] != pairs[j][1] {
				kn.add(i, j)
			}
		}
	}
	m["kneser6_2"] = kn
	m["C5uC5"] = circulant(5, 1).union(circulant(5, 1))
	m["K33uK33"] = circulant(6, 1, 3).union(circulant(6, 1, 3))
	m["prism5uC10"] = cartesian(circulant(5, 1), completeB(2)).union(circulant(10, 1))
	m["K5,5-perfect-matching"] = func() *BGr {
		g := newBGr(10)
		for i := 0; i < 5; i++ {
			for j := 0; j < 5; j++ {
				if i != j {
					g.add(i, 5+j)
				}
			}
		}
		return g
	}()
	for _, k := range []string{"petersen", "Q4", "rook4x4", "shrikhande", "4C4", "kneser6_2", "paley13", "2K4"} {
		m["co-"+k] = m[k].complement()
	}
	return m
}

// relabellingsWithin enumerates all permutations that are products of at most d transpositions (with repeats
// of the same permutation possible; callers only need coverage), plus the reversal and the rotation.
func relabellingsWithin(n, d int, emit func(p []int)) {
	p := make([]int, n)
	for i := range p {
		p[i] = i
	}
	var rec func(depth int, minA int)
	rec = func(depth int, minA int) {
		emit(p)
		if depth == d {
			return
		}
		for a := 0; a < n; a++ {
			for b := a + 1; b < n; b++ {
				p[a], p[b] = p[b], p[a]
				rec(depth+1, a)
				p[a], p[b] = p[b], p[a]
			}
		}
	}
	rec(0, 0)
	rev := make([]int, n)
	for i := range rev {
		rev[i] = n - 1 - i
	}
	emit(rev)
	emit(genTau(n))
}

func c01Hard(c *Ctx) {
	gs := hardGraphs()
	names := make([]string, 0, len(gs))
	for k := range gs {
		names = append(names, k)
	}
	sortStrings(names)
	canonOfName := map[string]string{}
	for _, name := range names {
		g := gs[name]
		d := 2
		if c.Thorough() && g.n <= 12 {
			d = 3
		}
		base, cl, what := bigCanon(g)
		if cl != "" {
			c.Fail(&Failure{Class: cl, What: name + ": " + what, Kind: "canon-big", Replay: bigCanonCase{Name: name, N: g.n, Edges: g.edgeList(), Perm: genSigma(g.n)}})
			continue
		}
		canonOfName[name] = base
		var perms [][]int
		relabellingsWithin(g.n, d, func(p []int) { perms = append(perms, append([]int(nil), p...)) })
		var bad int64
		edges := g.edgeList()
		c.parFor(int64(len(perms)), 64, func(lo, hi int64) {
			for i := lo; i < hi; i++ {
				p := perms[i]
				x, cl, _ := bigCanon(g.relabel(p))
				c.Evals(1)
				if cl != "" || x != base {
					atomic.AddInt64(&bad, 1)
					bc := bigCanonCase{Name: name, N: g.n, Edges: edges, Perm: p}
					c.Check(func() *Failure { return checkBigInvariance(bc) })
				}
			}
		})
		c.Nontrivial(int64(len(perms)))
		c.Count("named_"+name+"_relabellings", int64(len(perms)))
		if name == "petersen" {
			c.Sample("named-graph", bigCanonCase{Name: name, N: g.n, Edges: edges, Perm: perms[len(perms)/2]})
		}
	}
	// the two srg(16,6,2,2) graphs are not isomorphic
	if a, b := canonOfName["rook4x4"], canonOfName["shrikhande"]; a != "" && a == b {
		c.Fail(&Failure{Class: "canonical/non-isomorphic-graphs-same-canonical-form", What: "rook 4x4 and Shrikhande graph get the same canonical graph", Kind: "canon-pair"})
	}
	if a, b := canonOfName["2K4"], canonOfName["Q4"]; a != "" && b != "" && len(a) == len(b) && a == b {
		c.Fail(&Failure{Class: "canonical/non-isomorphic-graphs-same-canonical-form", What: "2K4 and Q4", Kind: "canon-pair"})
	}
}

// bigGraphs: graphs with more than 20 vertices (cells larger than the insertion-sort block of the stable
// sort in the refinement, so that its merge phase runs), irregular, built deterministically.
func bigGraphs() map[string]*BGr {
	m := map[string]*BGr{}
	cat := newBGr(30) // caterpillar: spine 0..9, vertex i has (i mod 3) leaves
	next := 10
	for i := 0; i < 10; i++ {
		if i > 0 {
			cat.add(i-1, i)
		}
		for l := 0; l < i%3+1 && next < 30; l++ {
			cat.add(i, next)
			next++
		}
	}
	m["caterpillar30"] = cat
	bt := newBGr(31)
	for i := 1; i < 31; i++ {
		bt.add(i, (i-1)/2)
	}
	m["binary-tree31"] = bt
	m["paths-3-4-5-6-7"] = pathB(3).union(pathB(4)).union(pathB(5)).union(pathB(6)).union(pathB(7))
	lcg := newBGr(26)
	x := uint64(12345)
	for i := 0; i < 26; i++ {
		for j := 0; j < i; j++ {
			x = x*6364136223846793005 + 1442695040888963407
			if (x>>33)%7 == 0 {
				lcg.add(i, j)
			}
		}
	}
	m["lcg26"] = lcg
	kb := newBGr(23)
	for i := 0; i < 10; i++ {
		for j := 10; j < 23; j++ {
			kb.add(i, j)
		}
	}
	kb.del(0, 10)
	kb.del(1, 11)
	kb.del(1, 12)
	m["K10,13-minus-3"] = kb
	wh := newBGr(24)
	for i := 0; i < 20; i++ {
		wh.add(i, (i+1)%20)
		if i%2 == 0 {
			wh.add(i, 20)
		}
	}
	wh.add(20, 21)
	wh.add(21, 22)
	wh.add(21, 23)
	m["half-wheel24"] = wh
	m["grid5x5"] = cartesian(pathB(5), pathB(5))
	m["prism12+tail"] = func() *BGr {
		g := cartesian(circulant(12, 1), completeB(2)).union(pathB(3))
		g.add(0, 24)
		return g
	}()
	return m
}

func lcgPerm(n int, seed uint64) []int {
	p := make([]int, n)
	for i := range p {
		p[i] = i
	}
	x := seed
	for i := n - 1; i > 0; i-- {
		x = x*6364136223846793005 + 1442695040888963407
		j := int((x >> 33) % uint64(i+1))
		p[i], p[j] = p[j], p[i]
	}
	return p
}

func c01Big(c *Ctx) {
	gs := bigGraphs()
	names := make([]string, 0, len(gs))
	for k := range gs {
		names = append(names, k)
	}
	sortStrings(names)
	for _, name := range names {
		g := gs[name]
		base, cl, what := bigCanon(g)
		if cl != "" {
			c.Fail(&Failure{Class: cl, What: name + ": " + what, Kind: "canon-big", Replay: bigCanonCase{Name: name, N: g.n, Edges: g.edgeList(), Perm: genSigma(g.n)}})
			continue
		}
		var perms [][]int
		relabellingsWithin(g.n, 1, func(p []int) { perms = append(perms, append([]int(nil), p...)) })
		k := 12
		if c.Thorough() {
			k = 200
		}
		for s := 1; s <= k; s++ {
			perms = append(perms, lcgPerm(g.n, uint64(s)*977))
		}
		edges := g.edgeList()
		c.parFor(int64(len(perms)), 16, func(lo, hi int64) {
			for i := lo; i < hi; i++ {
				p := perms[i]
				x, cl, _ := bigCanon(g.relabel(p))
				c.Evals(1)
				if cl != "" || x != base {
					bc := bigCanonCase{Name: name, N: g.n, Edges: edges, Perm: p}
					c.Check(func() *Failure { return checkBigInvariance(bc) })
				}
			}
		})
		c.Nontrivial(int64(len(perms)))
		c.Count("big_"+name+"_relabellings", int64(len(perms)))
	}
}

// ---- graphs with more than 64 vertices (canonical positions beyond one machine word) ----

// canonTimed runs CanonicalIsomorph under a deadline (a labelling that does not come back is a failure too).
func canonTimed(g graph.Graph) (p []int, class, what string) {
	type res struct {
		p   []int
		msg string
		pan bool
	}
	if atomic.LoadInt64(&canonHangs) >= 6 {
		// every labelling that does not come back leaks a goroutine that keeps a core busy; after six of them the
		// remaining timed labellings of this run are not started (they are reported under the same classifier)
		return nil, "canonical/does-not-terminate", "not evaluated: six earlier labellings were still running at their 90 s deadline"
	}
	ch := make(chan res, 1)
	go func() {
		var q []int
		msg, pan := try(func() { q = append([]int(nil), graph.CanonicalIsomorph(g)...) })
		ch <- res{q, msg, pan}
	}()
	select {
	case r := <-ch:
		if r.pan {
			return nil, "canonical/panic", r.msg
		}
		return r.p, "", ""
	case <-time.After(90 * time.Second):
		atomic.AddInt64(&canonHangs, 1)
		return nil, "canonical/does-not-terminate", "no result within 90s (graphs of this size are labelled in milliseconds on the pinned tree)"
	}
}

var canonHangs int64

func egCanon(g *EG) (string, string, string) {
	p, cl, what := canonTimed(libGraphFromEG(g, "dense"))
	if cl != "" {
		return "", cl, what
	}
	if !isPerm(p, g.N) {
		return "", "canonical/not-a-permutation", fmt.Sprint(p)
	}
	inv := make([]int, g.N)
	for i, v := range p {
		inv[v] = i
	}
	h := &EG{N: g.N}
	for _, e := range g.Edges {
		egAdd(h, inv[e[0]], inv[e[1]])
	}
	h.norm()
	return h.key(), "", ""
}

type egCanonCase struct {
	Name  string   `json:"name"`
	N     int      `json:"n"`
	Edges [][2]int `json:"edges"`
	Perm  []int    `json:"relabelling"`
}

func checkEGInvariance(ec egCanonCase) *Failure {
	g := &EG{N: ec.N, Edges: ec.Edges}
	g.norm()
	base, cl, what := egCanon(g)
	if cl != "" {
		return &Failure{Class: cl, What: ec.Name + ": " + what, Kind: "canon-eg", Replay: ec}
	}
	x, cl, what := egCanon(egRelabel(g, ec.Perm))
	if cl != "" {
		return &Failure{Class: cl, What: ec.Name + " relabelled: " + what, Kind: "canon-eg", Replay: ec}
	}
	if x != base {
		return &Failure{Class: "canonical/not-invariant-under-relabelling/named:" + ec.Name, What: fmt.Sprintf("%s (n=%d): relabelling %v changes the canonical graph", ec.Name, ec.N, ec.Perm), Kind: "canon-eg", Replay: ec}
	}
	return nil
}

func c01Huge(c *Ctx) {
	var gs []lgraph
	add := func(name string, g *EG) { g.norm(); gs = append(gs, lgraph{name: name, g: g}) }
	egUnion := func(a, b *EG) *EG {
		g := &EG{N: a.N + b.N, Edges: append([][2]int{}, a.Edges...)}
		for _, e := range b.Edges {
			g.Edges = append(g.Edges, [2]int{e[0] + a.N, e[1] + a.N})
		}
		return g
	}
	fromB := func(b *BGr) *EG { return &EG{N: b.n, Edges: b.edgeList()} }
	// an asymmetric ("rigid") tree: caterpillar whose i-th spine vertex carries i mod 5 leaves
	rigid := func(n int) *EG {
		g := &EG{N: n}
		spine := 0
		v := 1
		for v < n {
			egAdd(g, spine, v) // next spine vertex
			nextSpine := v
			v++
			for l := 0; l < (nextSpine*7)%5 && v < n; l++ {
				egAdd(g, nextSpine, v)
				v++
			}
			spine = nextSpine
		}
		return g
	}
	coC3C4 := fromB(circulant(3, 1).union(circulant(4, 1)).complement())
	add("rigid64+co(C3+C4)", egUnion(rigid(64), coC3C4))
	add("rigid70+petersen", egUnion(rigid(70), fromB(hardGraphs()["petersen"])))
	add("rigid60+C3+C4+C4", egUnion(rigid(60), fromB(circulant(3, 1).union(circulant(4, 1)).union(circulant(4, 1)))))
	add("2x-rigid40+K4", egUnion(egUnion(rigid(40), rigid(40)), fromB(completeB(4))))
	add("rigid66+K3,3", egUnion(rigid(66), fromB(circulant(6, 1, 3))))
	lcg := &EG{N: 80}
	x := uint64(777)
	for i := 0; i < 80; i++ {
		for j := 0; j < i; j++ {
			x = x*6364136223846793005 + 1442695040888963407
			if (x>>33)%11 == 0 {
				egAdd(lcg, j, i)
			}
		}
	}
	add("lcg80", lcg)
	add("grid9x9", func() *EG {
		g := &EG{N: 81}
		for i := 0; i < 9; i++ {
			for j := 0; j < 9; j++ {
				if j < 8 {
					egAdd(g, i*9+j, i*9+j+1)
				}
				if i < 8 {
					egAdd(g, i*9+j, i*9+9+j)
				}
			}
		}
		return g
	}())
	// search trees more than 256 levels deep (every level individualises one vertex): complete, edgeless and
	// perfect-matching graphs beyond 256 vertices / edges; few relabellings each (stated bound)
	deep := map[string]bool{}
	addDeep := func(name string, g *EG) { add(name, g); deep[name] = true }
	deepN, deepM := []int{257}, []int{256}
	if c.Thorough() {
		deepN, deepM = []int{255, 256, 257, 258, 300}, []int{255, 256, 257, 300}
	}
	for _, n := range deepN {
		kn := &EG{N: n}
		for i := 0; i < n; i++ {
			for j := 0; j < i; j++ {
				egAdd(kn, j, i)
			}
		}
		addDeep(fmt.Sprintf("K%d", n), kn)
		addDeep(fmt.Sprintf("edgeless%d", n), &EG{N: n})
	}
	for _, m := range deepM {
		pm := &EG{N: 2 * m}
		for i := 0; i < m; i++ {
			egAdd(pm, 2*i, 2*i+1)
		}
		addDeep(fmt.Sprintf("perfect-matching-%d-edges", m), pm)
	}
	for _, lg := range gs {
		g := lg.g
		n := g.N
		base, cl, what := egCanon(g)
		if cl != "" {
			c.Fail(&Failure{Class: cl, What: lg.name + ": " + what, Kind: "canon-eg", Replay: egCanonCase{Name: lg.name, N: n, Edges: g.Edges, Perm: genTau(n)}})
			continue
		}
		var perms [][]int
		special := []int{0, 1, 2, n / 2, 62, 63, 64, 65, n - 8, n - 7, n - 6, n - 5, n - 4, n - 3, n - 2, n - 1}
		for i, a := range special {
			for _, b := range special[:i] {
				if a != b && a < n && b < n {
					p := make([]int, n)
					for k := range p {
						p[k] = k
					}
					p[a], p[b] = b, a
					perms = append(perms, p)
				}
			}
		}
		perms = append(perms, relabelBattery(n, false, 0)...)
		k := 8
		if c.Thorough() {
			k = 80
		}
		if deep[lg.name] {
			perms = relabelBattery(n, false, 0)
			k = 1
			if !c.Thorough() {
				perms, k = perms[:1], 1
			}
		}
		for s := 1; s <= k; s++ {
			perms = append(perms, lcgPerm(n, uint64(s)*2741+uint64(n)))
		}
		name := lg.name
		c.parFor(int64(len(perms)), 4, func(lo, hi int64) {
			for _, p := range perms[lo:hi] {
				x, cl, _ := egCanon(egRelabel(g, p))
				c.Evals(1)
				if cl != "" || x != base {
					ec := egCanonCase{Name: name, N: n, Edges: g.Edges, Perm: p}
					c.Check(func() *Failure { return checkEGInvariance(ec) })
				}
			}
		})
		c.Nontrivial(int64(len(perms)))
		c.Count("huge_"+name+"_relabellings", int64(len(perms)))
	}
}

func sortStrings(a []string) {
	for i := 1; i < len(a); i++ {
		for j := i; j > 0 && a[j] < a[j-1]; j-- {
			a[j], a[j-1] = a[j-1], a[j]
		}
	}
}
