package main

// C03: the search yields exactly one representative of every isomorphism class (per split, per predicate).
// C04 helpers live here too (driving a GraphIterator).

import (
	"encoding/json"
	"fmt"
	"math"
	"sort"
	"sync"
	"time"

	"github.com/Tom-Johnston/mamba/graph"
	"github.com/Tom-Johnston/mamba/graph/search"
)

// hereditary predicates, written on IsEdge/N only. holds(g) = g has the property.
type hPred struct {
	name  string
	holds func(n int, e func(i, j int) bool) bool
}

func degOf(n int, e func(i, j int) bool, v int) int {
	d := 0
	for u := 0; u < n; u++ {
		if u != v && e(u, v) {
			d++
		}
	}
	return d
}

var hPreds = []hPred{
	{"none", func(n int, e func(i, j int) bool) bool { return true }},
	{"triangle-free", func(n int, e func(i, j int) bool) bool {
		for a := 0; a < n; a++ {
			for b := 0; b < a; b++ {
				if !e(a, b) {
					continue
				}
				for c := 0; c < b; c++ {
					if e(a, c) && e(b, c) {
						return false
					}
				}
			}
		}
		return true
	}},
	{"K4-free", func(n int, e func(i, j int) bool) bool {
		for a := 0; a < n; a++ {
			for b := 0; b < a; b++ {
				for c := 0; c < b; c++ {
					for d := 0; d < c; d++ {
						if e(a, b) && e(a, c) && e(a, d) && e(b, c) && e(b, d) && e(c, d) {
							return false
						}
					}
				}
			}
		}
		return true
	}},
	{"C4-subgraph-free", func(n int, e func(i, j int) bool) bool {
		// two vertices with two common neighbours
		for a := 0; a < n; a++ {
			for b := 0; b < a; b++ {
				common := 0
				for c := 0; c < n; c++ {
					if c != a && c != b && e(a, c) && e(b, c) {
						common++
					}
				}
				if common >= 2 {
					return false
				}
			}
		}
		return true
	}},
	{"claw-free", func(n int, e func(i, j int) bool) bool {
		for v := 0; v < n; v++ {
			for a := 0; a < n; a++ {
				for b := 0; b < a; b++ {
					for c := 0; c < b; c++ {
						if a != v && b != v && c != v && e(v, a) && e(v, b) && e(v, c) && !e(a, b) && !e(a, c) && !e(b, c) {
							return false
						}
					}
				}
			}
		}
		return true
	}},
	{"maxdeg<=2", func(n int, e func(i, j int) bool) bool {
		for v := 0; v < n; v++ {
			if degOf(n, e, v) > 2 {
				return false
			}
		}
		return true
	}},
	{"maxdeg<=3", func(n int, e func(i, j int) bool) bool {
		for v := 0; v < n; v++ {
			if degOf(n, e, v) > 3 {
				return false
			}
		}
		return true
	}},
	{"forest", func(n int, e func(i, j int) bool) bool {
		// union-find over edges
		p := make([]int, n)
		for i := range p {
			p[i] = i
		}
		var find func(x int) int
		find = func(x int) int {
			for p[x] != x {
				x = p[x]
			}
			return x
		}
		for a := 0; a < n; a++ {
			for b := 0; b < a; b++ {
				if e(a, b) {
					ra, rb := find(a), find(b)
					if ra == rb {
						return false
					}
					p[ra] = rb
				}
			}
		}
		return true
	}},
	{"bipartite", func(n int, e func(i, j int) bool) bool {
		col := make([]int, n)
		for i := range col {
			col[i] = -1
		}
		for s := 0; s < n; s++ {
			if col[s] != -1 {
				continue
			}
			col[s] = 0
			st := []int{s}
			for len(st) > 0 {
				v := st[len(st)-1]
				st = st[:len(st)-1]
				for u := 0; u < n; u++ {
					if u != v && e(u, v) {
						if col[u] == -1 {
							col[u] = 1 - col[v]
							st = append(st, u)
						} else if col[u] == col[v] {
							return false
						}
					}
				}
			}
		}
		return true
	}},
	{"independence<=2", func(n int, e func(i, j int) bool) bool {
		for a := 0; a < n; a++ {
			for b := 0; b < a; b++ {
				for c := 0; c < b; c++ {
					if !e(a, b) && !e(a, c) && !e(b, c) {
						return false
					}
				}
			}
		}
		return true
	}},
}

// extraPreds are hereditary predicates used by C04's single-pass save/load sweep and by the n <= 2 boundary configurations.
var extraPreds = []hPred{
	{"no-vertices", func(n int, e func(i, j int) bool) bool { return n == 0 }},
	{"at-most-1-vertex", func(n int, e func(i, j int) bool) bool { return n <= 1 }},
	{"at-most-10-non-edges", func(n int, e func(i, j int) bool) bool {
		non := 0
		for a := 0; a < n; a++ {
			for b := 0; b < a; b++ {
				if !e(a, b) {
					non++
				}
			}
		}
		return non <= 10
	}},
	{"at-most-8-edges", func(n int, e func(i, j int) bool) bool {
		m := 0
		for a := 0; a < n; a++ {
			for b := 0; b < a; b++ {
				if e(a, b) {
					m++
				}
			}
		}
		return m <= 8
	}},
}

func predByName(name string) *hPred {
	for i := range hPreds {
		if hPreds[i].name == name {
			return &hPreds[i]
		}
	}
	for i := range extraPreds {
		if extraPreds[i].name == name {
			return &extraPreds[i]
		}
	}
	return nil
}

type searchCfg struct {
	N     int    `json:"n"`
	M     int    `json:"m"`
	Pred  string `json:"predicate"`
	Place string `json:"placement"` // none | preprune | prune | both
	Inter bool   `json:"interleaved,omitempty"`
	// Reent: the predicate callback itself drains another search (All(4,0,1)) and labels a graph before it answers -
	// predicates are arbitrary functions, and a search used inside a callback of another search must not disturb it
	Reent bool `json:"reentrant_predicate,omitempty"`
}

func pruneFn(p *hPred) func(g *graph.DenseGraph) bool {
	return func(g *graph.DenseGraph) bool { return !p.holds(g.N(), g.IsEdge) }
}

func noPrune(g *graph.DenseGraph) bool { return false }

func reentrant(f func(g *graph.DenseGraph) bool) func(g *graph.DenseGraph) bool {
	return func(g *graph.DenseGraph) bool {
		inner := search.WithPruning(4, 0, 1, noPrune, noPrune)
		k := 0
		for inner.Next() {
			k += inner.Value().M()
		}
		_ = graph.CanonicalIsomorph(graph.Cycle(5))
		if k != 33 { // the 11 graphs on 4 vertices have 33 edges in total
			panic(fmt.Sprintf("inner search inside a predicate callback saw %d edges in total, want 33", k))
		}
		return f(g)
	}
}

func makeIter(cfg searchCfg, a int) *search.GraphIterator {
	p := predByName(cfg.Pred)
	fn := pruneFn(p)
	if cfg.Reent {
		fn = reentrant(fn)
	}
	switch cfg.Place {
	case "preprune":
		return search.WithPruning(cfg.N, a, cfg.M, fn, noPrune)
	case "prune":
		return search.WithPruning(cfg.N, a, cfg.M, noPrune, fn)
	case "both":
		return search.WithPruning(cfg.N, a, cfg.M, fn, fn)
	}
	return search.All(cfg.N, a, cfg.M)
}

// valueMask reads the current value of the iterator as an edge mask after checking it is a well-formed graph on n vertices.
func valueMask(it *search.GraphIterator, n int) (uint64, string) {
	g := it.Value()
	if g == nil {
		return 0, "Value() is nil"
	}
	if g.N() != n {
		return 0, fmt.Sprintf("Value() has %d vertices, want %d", g.N(), n)
	}
	if w := selfConsistent(g); w != "" {
		return 0, "Value() is malformed: " + w
	}
	return mgFromGraph(g).mask(), ""
}

var sweepCache sync.Map // n -> *sweep

type sweep struct {
	class []int32
	reps  []uint64
}

func getSweep(n int) *sweep {
	if v, ok := sweepCache.Load(n); ok {
		return v.(*sweep)
	}
	c, r := orbitSweep(n)
	s := &sweep{c, r}
	sweepCache.Store(n, s)
	return s
}

func evalSearchCfg(cfg searchCfg) *Failure {
	n := cfg.N
	sw := getSweep(n)
	p := predByName(cfg.Pred)
	mk := func(cl, what string) *Failure {
		re := ""
		if cfg.Reent {
			re = " (callback runs an inner search)"
		}
		return &Failure{Class: "search/" + cl, What: fmt.Sprintf("n=%d m=%d predicate %s as %s%s: %s", n, cfg.M, cfg.Pred, cfg.Place, re, what), Kind: "search-cfg", Replay: cfg}
	}
	want := map[int32]bool{}
	for id, r := range sw.reps {
		m := mgFromMask(n, r)
		if cfg.Place == "none" || p.holds(n, m.has) {
			want[int32(id)] = true
		}
	}
	seen := map[int32]int{} // class -> shard
	var f *Failure
	msg, pan := try(func() {
		its := make([]*search.GraphIterator, cfg.M)
		for a := 0; a < cfg.M; a++ {
			its[a] = makeIter(cfg, a)
		}
		step := func(a int) bool { // returns false when shard a is exhausted
			if !its[a].Next() {
				return false
			}
			mask, prob := valueMask(its[a], n)
			if prob != "" {
				f = mk("malformed-value", fmt.Sprintf("shard %d: %s", a, prob))
				return false
			}
			id := sw.class[mask]
			if prev, dup := seen[id]; dup {
				cl := "class-yielded-twice"
				if prev != a {
					cl = "class-yielded-by-two-shards"
				}
				f = mk(cl, fmt.Sprintf("class of %s yielded by shard %d and shard %d", g6(n, mask), prev, a))
				return false
			}
			seen[id] = a
			if !want[id] {
				f = mk("yields-class-violating-predicate", fmt.Sprintf("shard %d yields %s", a, g6(n, mask)))
				return false
			}
			return true
		}
		limit := len(sw.reps) + 5
		if cfg.Inter {
			live := make([]bool, cfg.M)
			for a := range live {
				live[a] = true
			}
			for left := cfg.M; left > 0 && f == nil; {
				for a := 0; a < cfg.M && f == nil; a++ {
					if live[a] && !step(a) {
						live[a] = false
						left--
					}
				}
				if len(seen) > limit {
					break
				}
			}
		} else {
			for a := 0; a < cfg.M && f == nil; a++ {
				for cnt := 0; step(a); cnt++ {
					if cnt > limit {
						f = mk("yields-more-than-the-classes", fmt.Sprintf("shard %d", a))
						break
					}
				}
				// exhaustion is stable
				if f == nil && its[a].Next() {
					f = mk("restarts-after-exhaustion", fmt.Sprintf("shard %d returned true after false", a))
				}
			}
		}
	})
	if pan {
		return mk("panic", msg)
	}
	if f != nil {
		return f
	}
	if len(seen) != len(want) {
		var missing []string
		for id := range want {
			if _, ok := seen[id]; !ok {
				missing = append(missing, g6(n, sw.reps[id]))
			}
		}
		sort.Strings(missing)
		if len(missing) > 5 {
			missing = missing[:5]
		}
		return mk("class-missing", fmt.Sprintf("%d classes yielded, %d expected; missing e.g. %v", len(seen), len(want), missing))
	}
	return nil
}

func c03Configs(maxN int) []searchCfg {
	var out []searchCfg
	for n := 0; n <= maxN; n++ {
		for _, m := range []int{1, 2, 3, 4, 5, 6, 7, 64} {
			out = append(out, searchCfg{N: n, M: m, Pred: "none", Place: "none"})
			out = append(out, searchCfg{N: n, M: m, Pred: "none", Place: "none", Inter: true})
			for _, p := range hPreds[1:] {
				for _, pl := range []string{"preprune", "prune", "both"} {
					if m > 4 && m != 64 && pl == "both" {
						continue
					}
					out = append(out, searchCfg{N: n, M: m, Pred: p.name, Place: pl})
				}
			}
			if n <= 2 {
				// predicates that tell the graphs on 0, 1 and 2 vertices apart (the iterator special-cases n <= 1)
				for _, pn := range []string{"no-vertices", "at-most-1-vertex"} {
					for _, pl := range []string{"preprune", "prune", "both"} {
						out = append(out, searchCfg{N: n, M: m, Pred: pn, Place: pl})
					}
				}
			}
			if n <= 6 && m <= 2 {
				for _, p := range hPreds[:4] { // none, triangle-free, K4-free, C4-subgraph-free
					for _, pl := range []string{"preprune", "prune", "both"} {
						out = append(out, searchCfg{N: n, M: m, Pred: p.name, Place: pl, Reent: true})
					}
				}
			}
		}
	}
	return out
}

// c03Counted: n = 9 and n = 10, where an orbit sweep is out of reach: class identity = the library's own canonical
// form (established by C01), expected number of classes = the published count (OEIS A000088). All shards of a
// split together must yield that many graphs with pairwise different canonical forms.
var graphCounts = map[int]int{9: 274668, 10: 12005168}

func c03Counted(c *Ctx, n, m int) {
	shards := make([][]uint64, m)
	var bad int64
	c.parFor(int64(m), 1, func(lo, hi int64) {
		for a := lo; a < hi; a++ {
			it := search.All(n, int(a), m)
			var canon []uint64
			for it.Next() {
				g := it.Value()
				if g.N() != n {
					c.Fail(&Failure{Class: "search/malformed-value", What: fmt.Sprintf("n=%d shard %d/%d: value with %d vertices", n, a, m, g.N()), Kind: "search-counted", Replay: map[string]int{"n": n, "m": m}})
					return
				}
				mask := mgFromGraph(g).mask()
				p := graph.CanonicalIsomorph(g)
				if !isPerm(p, n) {
					c.mu.Lock()
					bad++
					c.mu.Unlock()
					continue
				}
				canon = append(canon, relabelInduced(n, mask, p))
			}
			shards[a] = canon
		}
	})
	var all []uint64
	for _, s := range shards {
		all = append(all, s...)
	}
	sort.Slice(all, func(i, j int) bool { return all[i] < all[j] })
	dups := 0
	var firstDup uint64
	for i := 1; i < len(all); i++ {
		if all[i] == all[i-1] {
			if dups == 0 {
				firstDup = all[i]
			}
			dups++
		}
	}
	c.Evals(int64(len(all)))
	c.Nontrivial(int64(len(all)))
	c.Count(fmt.Sprintf("graphs_yielded_n%d_m%d", n, m), int64(len(all)))
	rp := map[string]int{"n": n, "m": m}
	if dups > 0 {
		c.Fail(&Failure{Class: "search/class-yielded-twice", What: fmt.Sprintf("n=%d m=%d: %d yielded graphs repeat the canonical form of another (e.g. %s)", n, m, dups, g6(n, firstDup)), Kind: "search-counted", Replay: rp})
	}
	if want := graphCounts[n]; len(all)-dups != want && bad == 0 {
		cl := "search/class-missing"
		if len(all)-dups > want {
			cl = "search/more-classes-than-exist"
		}
		c.Fail(&Failure{Class: cl, What: fmt.Sprintf("n=%d m=%d: %d distinct classes yielded, there are %d graphs on %d vertices", n, m, len(all)-dups, want, n), Kind: "search-counted", Replay: rp})
	}
}

// split moduli near the top of the int range: shard a of m then receives exactly the a-th choice at the split
// level, so the shards 0..255 together with m-1, m-2, m/2 must partition the classes (all but the first few are empty).
type hugeMCase struct {
	N int `json:"n"`
	M int `json:"m"`
}

func evalHugeM(hc hugeMCase) *Failure {
	n, m := hc.N, hc.M
	sw := getSweep(n)
	mk := func(cl, what string) *Failure {
		return &Failure{Class: "search/huge-modulus/" + cl, What: fmt.Sprintf("n=%d m=%d: %s", n, m, what), Kind: "search-huge-m", Replay: hc}
	}
	shards := []int{}
	for a := 0; a < 256; a++ {
		shards = append(shards, a)
	}
	shards = append(shards, m/2, m/2+1, m-2, m-1)
	seen := map[int32]int{}
	lastNonEmpty := -1
	var f *Failure
	msg, pan := try(func() {
		for _, a := range shards {
			it := search.All(n, a, m)
			cnt := 0
			for it.Next() {
				cnt++
				mask, prob := valueMask(it, n)
				if prob != "" {
					f = mk("malformed-value", fmt.Sprintf("shard %d: %s", a, prob))
					return
				}
				id := sw.class[mask]
				if prev, dup := seen[id]; dup {
					f = mk("class-yielded-by-two-shards", fmt.Sprintf("class of %s yielded by shard %d and shard %d", g6(n, mask), prev, a))
					return
				}
				seen[id] = a
				if cnt > len(sw.reps)+2 {
					f = mk("shard-too-long", fmt.Sprintf("shard %d yields more graphs than there are classes", a))
					return
				}
			}
			if cnt > 0 && a < 256 {
				lastNonEmpty = a
			}
			if cnt > 0 && a >= 256 {
				f = mk("far-shard-not-empty", fmt.Sprintf("shard %d yields %d graphs although the split level has far fewer choices", a, cnt))
				return
			}
		}
	})
	if pan {
		return mk("panic", msg)
	}
	if f != nil {
		return f
	}
	if lastNonEmpty >= 200 {
		return nil // more choices at the split level than shards examined: completeness cannot be concluded here
	}
	if len(seen) != len(sw.reps) {
		return mk("class-missing", fmt.Sprintf("shards 0..255, m/2, m/2+1, m-2, m-1 yield %d classes of %d", len(seen), len(sw.reps)))
	}
	return nil
}

// searches on 12..28 vertices for families so small that their classes are known in closed form (the labelling
// code then works on cells of more than 20 vertices): star + isolated vertices (n classes, one per edge count),
// matchings (floor(n/2)+1 classes), graphs with at most two edges (4 classes for n >= 4).
type tinyCase struct {
	N     int    `json:"n"`
	Fam   string `json:"family"` // star | matching | two-edges
	Place string `json:"placement"`
}

func tinyHolds(fam string, g *graph.DenseGraph) bool {
	deg := g.Degrees()
	m := g.M()
	switch fam {
	case "star": // some vertex meets every edge
		for _, d := range deg {
			if d == m {
				return true
			}
		}
		return m == 0
	case "matching":
		for _, d := range deg {
			if d > 1 {
				return false
			}
		}
		return true
	case "two-edges":
		return m <= 2
	}
	return false
}

func evalTiny(tc tinyCase) *Failure {
	n := tc.N
	mk := func(cl, what string) *Failure {
		return &Failure{Class: "search/closed-form-family/" + cl, What: fmt.Sprintf("n=%d family %s as %s: %s", n, tc.Fam, tc.Place, what), Kind: "search-tiny", Replay: tc}
	}
	want := map[string]bool{}
	switch tc.Fam {
	case "star":
		for k := 0; k < n; k++ {
			want[fmt.Sprintf("star with %d edges", k)] = true
		}
	case "matching":
		for k := 0; 2*k <= n; k++ {
			want[fmt.Sprintf("matching with %d edges", k)] = true
		}
	case "two-edges":
		want["0 edges"], want["1 edge"] = true, n >= 2
		if n >= 3 {
			want["path with 2 edges"] = true
		}
		if n >= 4 {
			want["2 disjoint edges"] = true
		}
		if n < 2 {
			delete(want, "1 edge")
		}
	}
	fn := func(g *graph.DenseGraph) bool { return !tinyHolds(tc.Fam, g) }
	var it *search.GraphIterator
	switch tc.Place {
	case "preprune":
		it = search.WithPruning(n, 0, 1, fn, noPrune)
	case "prune":
		it = search.WithPruning(n, 0, 1, noPrune, fn)
	default:
		it = search.WithPruning(n, 0, 1, fn, fn)
	}
	seen := map[string]bool{}
	var f *Failure
	msg, pan := try(func() {
		for it.Next() {
			g := it.Value()
			if g == nil || g.N() != n {
				f = mk("malformed-value", "value is nil or has the wrong number of vertices")
				return
			}
			if w := selfConsistentBig(g); w != "" {
				f = mk("malformed-value", w)
				return
			}
			if !tinyHolds(tc.Fam, g) {
				f = mk("yields-class-violating-predicate", fmt.Sprintf("a graph with %d edges and degrees %v", g.M(), g.Degrees()))
				return
			}
			key := ""
			maxd := 0
			for _, d := range g.Degrees() {
				if d > maxd {
					maxd = d
				}
			}
			switch tc.Fam {
			case "star":
				key = fmt.Sprintf("star with %d edges", g.M())
			case "matching":
				key = fmt.Sprintf("matching with %d edges", g.M())
			case "two-edges":
				key = map[[2]int]string{{0, 0}: "0 edges", {1, 1}: "1 edge", {2, 2}: "path with 2 edges", {2, 1}: "2 disjoint edges"}[[2]int{g.M(), maxd}]
			}
			if seen[key] {
				f = mk("class-yielded-twice", key)
				return
			}
			seen[key] = true
			if len(seen) > len(want)+2 {
				return
			}
		}
	})
	if pan {
		return mk("panic", msg)
	}
	if f != nil {
		return f
	}
	for k := range want {
		if !seen[k] {
			return mk("class-missing", fmt.Sprintf("%s is not yielded (%d of %d classes yielded)", k, len(seen), len(want)))
		}
	}
	return nil
}

func runC03(c *Ctx) {
	c.Level = "exploration"
	c.Rule = "every configuration (n<=7 (8 thorough), split modulus m in {1..7,64} with all shards a in [0,m), hereditary predicate in {triangle-free, K4-free, C4-free, claw-free, maxdeg<=2, maxdeg<=3, forest, bipartite, independence<=2} placed as preprune / prune / both, shards run sequentially or interleaved): every yielded value is a well-formed graph on n vertices, no isomorphism class (explicit orbit sweep, no canonical-form code) is yielded twice within or across shards, and the yielded classes are exactly those satisfying the predicate; all shards of n=9 (m=1,5) and n=10 (m=64) together: pairwise distinct canonical forms and the published number of graphs; non-trivial = configuration with n >= 4"
	maxN := 7
	if c.Thorough() {
		maxN = 8
	}
	for n := 0; n <= maxN; n++ {
		getSweep(n)
	}
	{
		var hcs []hugeMCase
		for n := 2; n <= 7; n++ {
			for _, m := range []int{math.MaxInt64, math.MaxInt64 - 1, math.MaxInt64 - 2, 1 << 62, 1<<62 + 1, 1<<32 + 1, 1 << 32, 1<<31 - 1, 1000003} {
				hcs = append(hcs, hugeMCase{n, m})
			}
		}
		c.parFor(int64(len(hcs)), 1, func(lo, hi int64) {
			for _, hc := range hcs[lo:hi] {
				hc := hc
				c.Check(func() *Failure { return evalHugeM(hc) })
				c.Nontrivial(1)
			}
		})
		c.SetCount("huge_modulus_cases", int64(len(hcs)))
	}
	{
		var tcs []tinyCase
		// (the iterator allocates C(n, n/2) ints: 21 MB at n = 24, 320 MB at n = 28, 4.8 GB at n = 32 - the sizes stop there)
		ns := []int{12, 16, 20, 21, 22, 23, 24}
		if c.Thorough() {
			ns = append(ns, 25, 26, 28)
		}
		for _, n := range ns {
			for _, fam := range []string{"star", "matching", "two-edges"} {
				for _, pl := range []string{"preprune", "prune"} {
					tcs = append(tcs, tinyCase{n, fam, pl})
				}
			}
		}
		c.parFor(int64(len(tcs)), 1, func(lo, hi int64) {
			for _, tc := range tcs[lo:hi] {
				tc := tc
				c.CheckTimed(600*time.Second, func() *Failure { return evalTiny(tc) }, func() *Failure {
					return &Failure{Class: "search/closed-form-family/does-not-terminate", What: fmt.Sprintf("%v still running after 600 s", tc), Kind: "search-tiny", Replay: tc, NoRepro: true}
				})
				c.Nontrivial(1)
			}
		})
		c.SetCount("closed_form_family_searches", int64(len(tcs)))
	}
	cfgs := c03Configs(maxN)
	var shards int64
	c.parFor(int64(len(cfgs)), 1, func(lo, hi int64) {
		for _, cfg := range cfgs[lo:hi] {
			cfg := cfg
			c.Check(func() *Failure { return evalSearchCfg(cfg) })
			if cfg.N >= 4 {
				c.Nontrivial(1)
			}
			c.mu.Lock()
			shards += int64(cfg.M)
			c.mu.Unlock()
		}
	})
	c03Counted(c, 9, 1)
	c03Counted(c, 9, 5)
	c03Counted(c, 10, 64)
	c.SetCount("configurations", int64(len(cfgs)))
	c.SetCount("shard_runs", shards)
	c.Sample("config", searchCfg{N: 6, M: 3, Pred: "claw-free", Place: "prune"})
	c.Assume("predicates are hereditary (closed under induced subgraphs), as the property requires")
}

func replayC03(kind string, raw json.RawMessage) *Failure {
	if kind == "search-counted" {
		var r map[string]int
		json.Unmarshal(raw, &r)
		cc := newCtx("C03", "quick")
		c03Counted(cc, r["n"], r["m"])
		for _, a := range cc.findings {
			return a.first
		}
		return nil
	}
	if kind == "search-tiny" {
		var tc tinyCase
		if err := json.Unmarshal(raw, &tc); err != nil {
			return &Failure{Class: "replay/bad-file", What: err.Error()}
		}
		return evalTiny(tc)
	}
	if kind == "search-huge-m" {
		var hc hugeMCase
		if err := json.Unmarshal(raw, &hc); err != nil {
			return &Failure{Class: "replay/bad-file", What: err.Error()}
		}
		return evalHugeM(hc)
	}
	if kind != "search-cfg" {
		return unsupportedKind(kind)
	}
	var cfg searchCfg
	if err := json.Unmarshal(raw, &cfg); err != nil {
		return &Failure{Class: "replay/bad-file", What: err.Error()}
	}
	return evalSearchCfg(cfg)
}

func init() { register("C03", runC03, replayC03) }
