package main

// C06: every graph the library constructs is well formed and matches its definition.

import (
	"encoding/json"
	"fmt"
	"sort"
	"sync/atomic"
	"time"

	"github.com/Tom-Johnston/mamba/graph"
	"github.com/Tom-Johnston/mamba/sortints"
)

type consCase struct {
	Fn   string  `json:"fn"`
	P    []int   `json:"params,omitempty"`
	N    int     `json:"n,omitempty"`
	Mask uint64  `json:"mask,omitempty"`
	Rep  string  `json:"rep,omitempty"`
	V    []int   `json:"v,omitempty"`
	F    float64 `json:"p,omitempty"`
}

// ---- small isomorphism test (reference; independent of graph/canonical.go) ----

func mgIsomorphic(a, b *MG) bool {
	if a.n != b.n || a.edges() != b.edges() {
		return false
	}
	n := a.n
	inv := func(m *MG) []string {
		out := make([]string, n)
		for v := 0; v < n; v++ {
			var nd []int
			for _, u := range m.nbrs(v) {
				nd = append(nd, m.deg(u))
			}
			sort.Ints(nd)
			out[v] = fmt.Sprint(m.deg(v), nd)
		}
		return out
	}
	ia, ib := inv(a), inv(b)
	sa, sb := append([]string{}, ia...), append([]string{}, ib...)
	sort.Strings(sa)
	sort.Strings(sb)
	for i := range sa {
		if sa[i] != sb[i] {
			return false
		}
	}
	// order vertices of a so that each next vertex is adjacent to an earlier one where possible (prunes early)
	order := make([]int, 0, n)
	inOrder := make([]bool, n)
	for len(order) < n {
		best := -1
		for v := 0; v < n; v++ {
			if inOrder[v] {
				continue
			}
			adj := false
			for _, u := range order {
				if a.has(u, v) {
					adj = true
					break
				}
			}
			if best == -1 || adj {
				best = v
				if adj {
					break
				}
			}
		}
		order = append(order, best)
		inOrder[best] = true
	}
	img := make([]int, n)
	used := make([]bool, n)
	var rec func(k int) bool
	rec = func(k int) bool {
		if k == n {
			return true
		}
		v := order[k]
		for w := 0; w < n; w++ {
			if used[w] || ia[v] != ib[w] {
				continue
			}
			ok := true
			for j := 0; j < k; j++ {
				u := order[j]
				if a.has(u, v) != b.has(img[u], w) {
					ok = false
					break
				}
			}
			if ok {
				img[v] = w
				used[w] = true
				if rec(k + 1) {
					return true
				}
				used[w] = false
			}
		}
		return false
	}
	return rec(0)
}

// ---- definitions ----

func defFromEdges(n int, f func(add func(i, j int))) *MG {
	if n > 64 {
		eg := &EG{N: n}
		f(func(i, j int) {
			if i != j {
				egAdd(eg, i, j)
			}
		})
		eg.norm()
		return &MG{n: n, big: eg}
	}
	m := newMG(n)
	f(func(i, j int) {
		if i != j {
			m.set(i, j, true)
		}
	})
	return m
}

func colexSubsets(n, k int) [][]int {
	r := refCombinations(n, k)
	sort.SliceStable(r, func(i, j int) bool { return colexLess(r[i], r[j]) })
	return r
}

func disjointInts(a, b []int) bool {
	for _, x := range a {
		for _, y := range b {
			if x == y {
				return false
			}
		}
	}
	return true
}

func subsetInts(a, b []int) bool { // a subset of b
	for _, x := range a {
		f := false
		for _, y := range b {
			if x == y {
				f = true
			}
		}
		if !f {
			return false
		}
	}
	return true
}

// evalNamed builds a named family member and compares it with its definition. exact=false: up to isomorphism.
func evalNamed(cc consCase) *Failure {
	P := cc.P
	var g *graph.DenseGraph
	var want *MG
	exact := true
	build := func(f func() *graph.DenseGraph) (string, bool) { return try(func() { g = f() }) }
	var msg string
	var pan bool
	sfx := ""
	switch cc.Fn {
	case "CompleteGraph":
		n := P[0]
		want = defFromEdges(n, func(add func(i, j int)) {
			for i := 0; i < n; i++ {
				for j := 0; j < i; j++ {
					add(i, j)
				}
			}
		})
		msg, pan = build(func() *graph.DenseGraph { return graph.CompleteGraph(n) })
	case "Path":
		n := P[0]
		want = defFromEdges(n, func(add func(i, j int)) {
			for i := 0; i+1 < n; i++ {
				add(i, i+1)
			}
		})
		msg, pan = build(func() *graph.DenseGraph { return graph.Path(n) })
		if n == 0 {
			sfx = "/n=0"
		}
	case "Cycle":
		n := P[0]
		want = defFromEdges(n, func(add func(i, j int)) {
			for i := 0; i < n; i++ {
				add(i, (i+1)%n)
			}
		})
		msg, pan = build(func() *graph.DenseGraph { return graph.Cycle(n) })
		if n < 3 {
			sfx = "/n<3"
		}
	case "Star":
		n := P[0]
		want = defFromEdges(n, func(add func(i, j int)) {
			for i := 1; i < n; i++ {
				add(0, i)
			}
		})
		msg, pan = build(func() *graph.DenseGraph { return graph.Star(n) })
		if n == 0 {
			sfx = "/n=0"
		}
	case "CompletePartiteGraph":
		n := 0
		part := []int{}
		for pi, v := range P {
			for i := 0; i < v; i++ {
				part = append(part, pi)
			}
			n += v
		}
		want = defFromEdges(n, func(add func(i, j int)) {
			for i := 0; i < n; i++ {
				for j := 0; j < i; j++ {
					if part[i] != part[j] {
						add(i, j)
					}
				}
			}
		})
		msg, pan = build(func() *graph.DenseGraph { return graph.CompletePartiteGraph(append([]int{}, P...)...) })
	case "RookGraph":
		a, b := P[0], P[1]
		exact = false
		want = defFromEdges(a*b, func(add func(i, j int)) {
			for x := 0; x < a*b; x++ {
				for y := 0; y < x; y++ {
					if x/b == y/b || x%b == y%b {
						add(x, y)
					}
				}
			}
		})
		msg, pan = build(func() *graph.DenseGraph { return graph.RookGraph(a, b) })
	case "FlowerSnark":
		n := P[0]
		exact = false
		// n stars (centre A_i, leaves B_i, C_i, D_i), the n-cycle B_0..B_{n-1} and the 2n-cycle C_0..C_{n-1} D_0..D_{n-1}
		want = defFromEdges(4*n, func(add func(i, j int)) {
			A := func(i int) int { return 4 * i }
			B := func(i int) int { return 4*i + 1 }
			C := func(i int) int { return 4*i + 2 }
			D := func(i int) int { return 4*i + 3 }
			for i := 0; i < n; i++ {
				add(A(i), B(i))
				add(A(i), C(i))
				add(A(i), D(i))
				add(B(i), B((i+1)%n))
				if i+1 < n {
					add(C(i), C(i+1))
					add(D(i), D(i+1))
				}
			}
			add(C(n-1), D(0))
			add(D(n-1), C(0))
		})
		msg, pan = build(func() *graph.DenseGraph { return graph.FlowerSnark(n) })
	case "HypercubeGraph":
		d := P[0]
		exact = false
		want = defFromEdges(1<<uint(d), func(add func(i, j int)) {
			for i := 0; i < 1<<uint(d); i++ {
				for b := 0; b < d; b++ {
					add(i, i^(1<<uint(b)))
				}
			}
		})
		msg, pan = build(func() *graph.DenseGraph { return graph.HypercubeGraph(d) })
	case "FoldedHypercubeGraph":
		d := P[0]
		exact = false
		nn := 1 << uint(d-1)
		want = defFromEdges(nn, func(add func(i, j int)) {
			for i := 0; i < nn; i++ {
				for b := 0; b < d-1; b++ {
					add(i, i^(1<<uint(b)))
				}
				add(i, (nn-1)&^i)
			}
		})
		msg, pan = build(func() *graph.DenseGraph { return graph.FoldedHypercubeGraph(d) })
	case "KneserGraph":
		n, k := P[0], P[1]
		subs := colexSubsets(n, k)
		want = defFromEdges(len(subs), func(add func(i, j int)) {
			for i := range subs {
				for j := 0; j < i; j++ {
					if disjointInts(subs[i], subs[j]) {
						add(i, j)
					}
				}
			}
		})
		msg, pan = build(func() *graph.DenseGraph { return graph.KneserGraph(n, k) })
	case "BipartiteKneserGraph":
		n, k := P[0], P[1]
		sa := colexSubsets(n, k)
		sb := colexSubsets(n, n-k)
		N := len(sa)
		want = defFromEdges(2*N, func(add func(i, j int)) {
			for i := range sa {
				for j := range sb {
					if subsetInts(sa[i], sb[j]) || subsetInts(sb[j], sa[i]) {
						add(i, N+j)
					}
				}
			}
		})
		if 2*k > n {
			sfx = "/k>n-k"
		}
		msg, pan = build(func() *graph.DenseGraph { return graph.BipartiteKneserGraph(n, k) })
	case "CirculantGraph":
		n := P[0]
		diffs := P[1:]
		want = defFromEdges(n, func(add func(i, j int)) {
			for i := 0; i < n; i++ {
				for _, d := range diffs {
					add(i, ((i+d)%n+n)%n)
				}
			}
		})
		msg, pan = build(func() *graph.DenseGraph { return graph.CirculantGraph(n, append([]int{}, diffs...)...) })
	case "CirculantBipartiteGraph":
		n, m := P[0], P[1]
		diffs := P[2:]
		want = defFromEdges(n+m, func(add func(i, j int)) {
			for i := 0; i < n; i++ {
				for _, d := range diffs {
					add(i, n+((i+d)%m+m)%m)
				}
			}
		})
		msg, pan = build(func() *graph.DenseGraph { return graph.CirculantBipartiteGraph(n, m, append([]int{}, diffs...)...) })
	case "GeneralisedPetersenGraph":
		n, k := P[0], P[1]
		want = defFromEdges(2*n, func(add func(i, j int)) {
			for i := 0; i < n; i++ {
				add(i, (i+1)%n)
				add(i, n+i)
				add(n+i, n+(i+k)%n)
			}
		})
		msg, pan = build(func() *graph.DenseGraph { return graph.GeneralisedPetersenGraph(n, k) })
	case "FriendshipGraph":
		n := P[0]
		want = defFromEdges(2*n+1, func(add func(i, j int)) {
			for i := 0; i < n; i++ {
				add(0, 2*i+1)
				add(0, 2*i+2)
				add(2*i+1, 2*i+2)
			}
		})
		msg, pan = build(func() *graph.DenseGraph { return graph.FriendshipGraph(n) })
	default:
		return &Failure{Class: "construct/unknown", What: cc.Fn}
	}
	mk := func(cl, what string) *Failure {
		return &Failure{Class: "construct/" + cc.Fn + "/" + cl + sfx, What: fmt.Sprintf("%s(%v): %s", cc.Fn, cc.P, what), Kind: "named", Replay: cc}
	}
	if pan {
		return mk("panic", msg)
	}
	if w := selfConsistent(g); w != "" {
		return mk("malformed", w)
	}
	if want.big != nil {
		gotE, prob := egFromLib(g)
		if prob != "" {
			return mk("malformed", prob)
		}
		if gotE.key() != want.big.key() {
			return mk("wrong-edges", fmt.Sprintf("%d vertices: %d edges, the definition gives %d edges (or other edges)", gotE.N, len(gotE.Edges), len(want.big.Edges)))
		}
		return nil
	}
	got := mgFromGraph(g)
	if exact {
		if !got.equal(want) {
			return mk("wrong-edges", fmt.Sprintf("got %v, the definition gives %v", got, want))
		}
	} else if !got.equal(want) && !mgIsomorphic(got, want) {
		return mk("not-isomorphic-to-definition", fmt.Sprintf("got %v", got))
	}
	return nil
}

// evalTransform checks one transformation of one labelled graph.
func evalTransform(cc consCase) *Failure {
	n, mask := cc.N, cc.Mask
	src := mgFromMask(n, mask)
	mk := func(cl, what string) *Failure {
		return &Failure{Class: "construct/" + cc.Fn + "/" + cl, What: fmt.Sprintf("%s on %s %s (n=%d) args %v: %s", cc.Fn, cc.Rep, g6(n, mask), n, cc.V, what), Kind: "transform", Replay: cc}
	}
	var base graph.EditableGraph
	switch cc.Rep {
	case "sparse":
		base = sparseFromMG(src)
	case "dense-bytes": // non-unit edge indicator bytes
		base = graphInRep("dense-bytes", n, mask).(*graph.DenseGraph)
	default:
		base = denseFromMG(src)
	}
	var out graph.Graph
	var want *MG
	exact := true
	msg, p := try(func() {
		switch cc.Fn {
		case "ContractThenSplit", "SplitThenContract":
			// two transformations in a row on the same value: V = [i, j, k, l]
			want = src.clone()
			contract := func(a, b int) {
				graph.Contract(base, a, b)
				for _, v := range want.nbrs(b) {
					want.set(a, v, true)
				}
				want.removeVertex(b)
			}
			split := func(a, b int) {
				graph.SplitEdge(base, a, b)
				want.set(a, b, false)
				want.addVertex([]int{a, b})
			}
			if cc.Fn == "ContractThenSplit" {
				contract(cc.V[0], cc.V[1])
				split(cc.V[2], cc.V[3])
			} else {
				split(cc.V[0], cc.V[1])
				contract(cc.V[2], cc.V[3])
			}
			out = base
		case "ComplementDense":
			out = graph.ComplementDense(base)
			want = defFromEdges(n, func(add func(i, j int)) {
				for i := 0; i < n; i++ {
					for j := 0; j < i; j++ {
						if !src.has(i, j) {
							add(i, j)
						}
					}
				}
			})
		case "Complement":
			out = graph.Complement(base)
			want = defFromEdges(n, func(add func(i, j int)) {
				for i := 0; i < n; i++ {
					for j := 0; j < i; j++ {
						if !src.has(i, j) {
							add(i, j)
						}
					}
				}
			})
		case "LineGraphDense":
			out = graph.LineGraphDense(base)
			exact = false
			es := egFromMG(src).Edges
			want = defFromEdges(len(es), func(add func(i, j int)) {
				for i := range es {
					for j := 0; j < i; j++ {
						if es[i][0] == es[j][0] || es[i][0] == es[j][1] || es[i][1] == es[j][0] || es[i][1] == es[j][1] {
							add(i, j)
						}
					}
				}
			})
		case "InducedSubgraphView":
			arg := append([]int{}, cc.V...)
			out = graph.InducedSubgraph(base, arg)
			want = src.induced(cc.V)
		case "SplitEdge":
			graph.SplitEdge(base, cc.V[0], cc.V[1])
			out = base
			want = src.clone()
			want.set(cc.V[0], cc.V[1], false)
			want.addVertex([]int{cc.V[0], cc.V[1]})
		case "Contract":
			graph.Contract(base, cc.V[0], cc.V[1])
			out = base
			want = src.clone()
			for _, v := range src.nbrs(cc.V[1]) {
				want.set(cc.V[0], v, true)
			}
			want.removeVertex(cc.V[1])
		}
	})
	if p {
		if cc.Fn == "SplitEdge" && cc.V[0] == cc.V[1] {
			return nil // documented panic
		}
		return mk("panic", msg)
	}
	if cc.Fn == "SplitEdge" && cc.V[0] == cc.V[1] {
		return mk("missing-panic", "SplitEdge(i,i) is documented to panic")
	}
	if exact {
		if w := wellFormed(out, want); w != "" {
			cl := "malformed-or-wrong"
			if cc.Fn == "Complement" {
				cl = "view-malformed"
			}
			return mk(cl, w)
		}
	} else {
		if w := selfConsistent(out); w != "" {
			return mk("malformed", w)
		}
		if got := mgFromGraph(out); !mgIsomorphic(got, want) {
			return mk("not-isomorphic-to-definition", fmt.Sprint(got))
		}
	}
	if src2 := mgFromGraph(base); cc.Fn != "SplitEdge" && cc.Fn != "Contract" && cc.Fn != "ContractThenSplit" && cc.Fn != "SplitThenContract" && !src2.equal(src) {
		return mk("source-modified", "")
	}
	return nil
}

// evalNewDense: every byte slice over {0,1,2}; the graph must not change when the caller modifies the slice.
func evalNewDense(cc consCase) *Failure {
	n := cc.N
	E := edgeCount(n)
	edges := make([]byte, E)
	want := newMG(n)
	x := cc.Mask
	idx := 0
	for j := 1; j < n; j++ {
		for i := 0; i < j; i++ {
			edges[idx] = byte(x % 3)
			x /= 3
			if edges[idx] > 0 {
				want.set(i, j, true)
			}
			idx++
		}
	}
	mk := func(cl, what string) *Failure {
		return &Failure{Class: "construct/NewDense/" + cl, What: fmt.Sprintf("n=%d edges=%v: %s", n, edges, what), Kind: "newdense", Replay: cc}
	}
	orig := append([]byte{}, edges...)
	var g *graph.DenseGraph
	if msg, p := try(func() { g = graph.NewDense(n, edges) }); p {
		return mk("panic", msg)
	}
	if w := wellFormed(g, want); w != "" {
		return mk("malformed-or-wrong", w)
	}
	if string(orig) != string(edges) {
		return mk("argument-modified", "")
	}
	for i := range edges {
		edges[i] = 1 - edges[i]%2
	}
	if w := wellFormed(g, want); w != "" {
		return mk("aliases-caller-slice", "after the caller overwrote its slice: "+w)
	}
	// and the other direction: editing the graph must not write into the caller's slice
	snapshot := append([]byte{}, edges...)
	for i := 0; i < n; i++ {
		for j := 0; j < i; j++ {
			g.AddEdge(i, j)
		}
	}
	if string(snapshot) != string(edges) {
		return mk("aliases-caller-slice", "editing the graph changed the caller's slice")
	}
	return nil
}

// evalNewSparse: neighbour lists in permuted order with repeats; caller mutation afterwards.
func evalNewSparse(cc consCase) *Failure {
	n := cc.N
	want := mgFromMask(n, cc.Mask)
	variant := 0
	if len(cc.V) > 0 {
		variant = cc.V[0]
	}
	lists := make([]sortints.SortedInts, n)
	for v := 0; v < n; v++ {
		nb := want.nbrs(v)
		switch variant {
		case 1: // descending
			for i, j := 0, len(nb)-1; i < j; i, j = i+1, j-1 {
				nb[i], nb[j] = nb[j], nb[i]
			}
		case 2: // every entry repeated
			nb = append(nb, nb...)
		case 3: // rotated with the first entry repeated at the end
			if len(nb) > 1 {
				nb = append(append(nb[1:], nb[0]), nb[1])
			}
		}
		lists[v] = sortints.SortedInts(nb)
		if lists[v] == nil {
			lists[v] = sortints.SortedInts{}
		}
	}
	mk := func(cl, what string) *Failure {
		return &Failure{Class: "construct/NewSparse/" + cl, What: fmt.Sprintf("n=%d %s variant %d: %s", n, g6(n, cc.Mask), variant, what), Kind: "newsparse", Replay: cc}
	}
	var g *graph.SparseGraph
	if msg, p := try(func() { g = graph.NewSparse(n, lists) }); p {
		return mk("panic", msg)
	}
	if w := wellFormed(g, want); w != "" {
		return mk("malformed-or-wrong", w)
	}
	for v := range lists {
		for i := range lists[v] {
			lists[v][i] = (lists[v][i] + 1) % (n + 1)
		}
		lists[v] = nil
	}
	if w := wellFormed(g, want); w != "" {
		return mk("aliases-caller-slices", "after the caller overwrote its lists: "+w)
	}
	return nil
}

func evalRandom(cc consCase) *Failure {
	mk := func(cl, what string) *Failure {
		return &Failure{Class: "construct/" + cc.Fn + "/" + cl, What: fmt.Sprintf("%s(%v, p=%v): %s", cc.Fn, cc.P, cc.F, what), Kind: "random", Replay: cc}
	}
	var g *graph.DenseGraph
	n, seed := cc.P[0], int64(cc.P[1])
	if cc.Fn == "RandomGraph" {
		if msg, p := try(func() { g = graph.RandomGraph(n, cc.F, seed) }); p {
			return mk("panic", msg)
		}
		if w := selfConsistent(g); w != "" {
			return mk("malformed", w)
		}
		if g.N() != n {
			return mk("wrong-order", fmt.Sprint(g.N()))
		}
		if cc.F == 0 && g.M() != 0 || cc.F == 1 && g.M() != edgeCount(n) {
			return mk("wrong-density", fmt.Sprintf("M=%d", g.M()))
		}
		var g2 *graph.DenseGraph
		try(func() { g2 = graph.RandomGraph(n, cc.F, seed) })
		if g2 == nil || !mgFromGraph(g2).equal(mgFromGraph(g)) {
			return mk("seed-does-not-determine-graph", "")
		}
		return nil
	}
	if msg, p := try(func() { g = graph.RandomTree(n, seed) }); p {
		return mk("panic", msg)
	}
	if w := selfConsistent(g); w != "" {
		return mk("malformed", w)
	}
	if g.N() != n || !isTree(egFromGraph(n, g.IsEdge)) {
		return mk("not-a-tree", fmt.Sprint(mgFromGraph(g)))
	}
	return nil
}

func evalDecoderOutput(cc consCase) *Failure {
	n, mask := cc.N, cc.Mask
	want := mgFromMask(n, mask)
	eg := egFromMG(want)
	mk := func(cl, what string) *Failure {
		return &Failure{Class: "construct/" + cc.Fn + "/" + cl, What: fmt.Sprintf("%s of the encoding of %s (n=%d): %s", cc.Fn, g6(n, mask), n, what), Kind: "decoder-output", Replay: cc}
	}
	var out graph.Graph
	var err error
	msg, p := try(func() {
		switch cc.Fn {
		case "Graph6Decode":
			out, err = graph.Graph6Decode(refGraph6Encode(eg))
		case "Sparse6Decode":
			out, err = graph.Sparse6Decode(refSparse6Encode(eg))
		case "MulticodeDecode":
			out = graph.MulticodeDecode(refMulticodeEncode(eg))
		}
	})
	if p {
		return mk("panic", msg)
	}
	if err != nil {
		return mk("error", err.Error())
	}
	if w := wellFormed(out, want); w != "" {
		return mk("malformed-or-wrong", w)
	}
	return nil
}

// evalDecoderOutputBig: the three decoders on the reference encodings of one larger graph.
func evalDecoderOutputBig(g *EG) *Failure {
	for _, fn := range []string{"Graph6Decode", "Sparse6Decode", "MulticodeDecode"} {
		mk := func(cl, what string) *Failure {
			return &Failure{Class: "construct/" + fn + "/" + cl, What: fmt.Sprintf("%s of the encoding of n=%d %s: %s", fn, g.N, clipEdges(g.Edges), what), Kind: "decoder-output-big", Replay: map[string]interface{}{"n": g.N, "edges": g.Edges}}
		}
		if fn == "MulticodeDecode" && g.N > 255 {
			continue
		}
		var out graph.Graph
		var err error
		msg, p := try(func() {
			switch fn {
			case "Graph6Decode":
				out, err = graph.Graph6Decode(refGraph6Encode(g))
			case "Sparse6Decode":
				out, err = graph.Sparse6Decode(refSparse6Encode(g))
			case "MulticodeDecode":
				out = graph.MulticodeDecode(refMulticodeEncode(g))
			}
		})
		if p {
			return mk("panic", msg)
		}
		if err != nil {
			return mk("error", err.Error())
		}
		got, prob := egFromLib(out)
		if prob != "" {
			return mk("malformed-or-wrong", prob)
		}
		if w := selfConsistent(out); w != "" {
			return mk("malformed-or-wrong", w)
		}
		if got.key() != g.key() {
			return mk("malformed-or-wrong", "decoded graph differs from the encoded one")
		}
	}
	return nil
}

// evalDecoderStrings: the first string of the batch whose decoded graph is not well formed.
func evalDecoderStrings(b decBatch) *Failure {
	var f *Failure
	b.each(func(s []byte) {
		if f != nil {
			return
		}
		n, declared := declaredN(b.Decoder, string(s))
		if !declared || n > 256 {
			return
		}
		var g graph.Graph
		var err error
		_, p := try(func() {
			if b.Decoder == "graph6" {
				var d *graph.DenseGraph
				d, err = graph.Graph6Decode(string(s))
				g = d
			} else {
				var d *graph.SparseGraph
				d, err = graph.Sparse6Decode(string(s))
				g = d
			}
		})
		if p || err != nil {
			return // C08 decides about panics; an error is a legitimate answer
		}
		fn := map[string]string{"graph6": "Graph6Decode", "sparse6": "Sparse6Decode"}[b.Decoder]
		if w := selfConsistentBig(g); w != "" {
			f = &Failure{Class: "construct/" + fn + "/malformed-graph-from-accepted-string", What: fmt.Sprintf("%s(%q) is accepted and returns a malformed graph: %s", fn, clip(string(s)), w), Kind: "decoder-strings-batch", Replay: decBatch{Decoder: b.Decoder, Strs: [][]byte{s}}}
			return
		}
		if nb := unsortedNeighbours(g); nb != "" {
			f = &Failure{Class: "construct/" + fn + "/malformed-graph-from-accepted-string", What: fmt.Sprintf("%s(%q): %s", fn, clip(string(s)), nb), Kind: "decoder-strings-batch", Replay: decBatch{Decoder: b.Decoder, Strs: [][]byte{s}}}
		}
	})
	return f
}

// unsortedNeighbours reports a neighbour list that is not strictly ascending or disagrees with IsEdge.
func unsortedNeighbours(g graph.Graph) string {
	n := g.N()
	for v := 0; v < n; v++ {
		nb := g.Neighbours(v)
		for i, u := range nb {
			if u < 0 || u >= n || u == v || (i > 0 && nb[i-1] >= u) || !g.IsEdge(v, u) {
				return fmt.Sprintf("Neighbours(%d) = %v is not a strictly ascending list of neighbours", v, nb)
			}
		}
	}
	return ""
}

func evalPruferOutput(cc consCase) *Failure {
	var g *graph.DenseGraph
	mk := func(cl, what string) *Failure {
		return &Failure{Class: "construct/PruferDecode/" + cl, What: fmt.Sprintf("code %v: %s", cc.V, what), Kind: "prufer-output", Replay: cc}
	}
	if msg, p := try(func() { g = graph.PruferDecode(append([]int{}, cc.V...)) }); p {
		return mk("panic", msg)
	}
	ref := refPruferDecode(cc.V)
	want := newMG(ref.N)
	for _, e := range ref.Edges {
		want.set(e[0], e[1], true)
	}
	if w := wellFormed(g, want); w != "" {
		return mk("malformed-or-wrong", w)
	}
	return nil
}

func runC06(c *Ctx) {
	c.Level = "exploration"
	c.Rule = "each constructor over its whole accepted domain up to a size (named families from n=0), every transformation on every labelled graph with n<=5 in both representations (every vertex sequence for the induced-subgraph view, every pair for SplitEdge/Contract), every decoder output on the encodings of all graphs with n<=5 and all Pruefer codes n<=6, NewDense on every byte slice over {0,1,2} for n<=4 and NewSparse on permuted/repeated neighbour lists, both re-checked after the caller overwrites its slices; oracle W(g) (symmetric, loop-free, M, Degrees, ascending Neighbours) plus the defining edge set (exact where the numbering is documented, up to isomorphism by a backtracking test otherwise); non-trivial = result with at least one edge or n >= 2"
	var cases []consCase
	add := func(cc consCase) { cases = append(cases, cc) }
	for n := 0; n <= 40; n++ {
		for _, fn := range []string{"CompleteGraph", "Path", "Cycle", "Star"} {
			add(consCase{Fn: fn, P: []int{n}})
		}
	}
	for l := 0; l <= 4; l++ {
		for _, v := range refProduct(repeatInt(4, l)) {
			add(consCase{Fn: "CompletePartiteGraph", P: v})
		}
	}
	for a := 0; a <= 4; a++ {
		for b := 0; b <= 4; b++ {
			add(consCase{Fn: "RookGraph", P: []int{a, b}})
		}
	}
	for _, n := range []int{3, 5, 7} {
		add(consCase{Fn: "FlowerSnark", P: []int{n}})
	}
	for d := 0; d <= 6; d++ {
		add(consCase{Fn: "HypercubeGraph", P: []int{d}})
		add(consCase{Fn: "FoldedHypercubeGraph", P: []int{d + 1}})
	}
	for _, v := range [][]int{{5, 6}, {7, 1, 1}, {1, 9}, {6, 6, 6}, {2, 3, 4, 5}, {10}, {0, 12, 0, 3}, {4, 4, 4, 4, 4}} {
		add(consCase{Fn: "CompletePartiteGraph", P: v})
	}
	for _, ab := range [][2]int{{5, 5}, {2, 9}, {6, 3}, {1, 12}} {
		add(consCase{Fn: "RookGraph", P: []int{ab[0], ab[1]}})
	}
	for _, nk := range [][2]int{{8, 2}, {8, 3}, {9, 2}, {9, 4}, {10, 1}, {10, 5}} {
		add(consCase{Fn: "KneserGraph", P: []int{nk[0], nk[1]}})
	}
	for _, nk := range [][2]int{{7, 2}, {7, 3}, {8, 1}, {8, 4}, {8, 6}} {
		add(consCase{Fn: "BipartiteKneserGraph", P: []int{nk[0], nk[1]}})
	}
	for n := 9; n <= 40; n += 3 {
		for _, ds := range [][]int{{1}, {2, 5}, {-3, 7}, {n / 2}, {n, 1}, {1, 2, 3, 4}} {
			add(consCase{Fn: "CirculantGraph", P: append([]int{n}, ds...)})
		}
		add(consCase{Fn: "CirculantBipartiteGraph", P: []int{n, n + 2, 0, 1, -5}})
		add(consCase{Fn: "CirculantBipartiteGraph", P: []int{n + 3, n, 2, n}})
	}
	for n := 0; n <= 7; n++ {
		for k := 0; k <= n+1; k++ {
			if n == 7 && k >= 3 && k <= 4 && !c.Thorough() {
				continue
			}
			add(consCase{Fn: "KneserGraph", P: []int{n, k}})
			if n <= 6 && k <= n {
				add(consCase{Fn: "BipartiteKneserGraph", P: []int{n, k}})
			}
		}
	}
	for n := 0; n <= 8; n++ {
		var ds []int
		for d := -n; d <= n; d++ {
			ds = append(ds, d)
		}
		add(consCase{Fn: "CirculantGraph", P: []int{n}})
		for i := range ds {
			add(consCase{Fn: "CirculantGraph", P: []int{n, ds[i]}})
			for j := i; j < len(ds); j++ {
				add(consCase{Fn: "CirculantGraph", P: []int{n, ds[i], ds[j]}})
				if n <= 6 {
					for k := j; k < len(ds); k++ {
						add(consCase{Fn: "CirculantGraph", P: []int{n, ds[i], ds[j], ds[k]}})
					}
				}
			}
		}
	}
	for n := 0; n <= 4; n++ {
		for m := 1; m <= 4; m++ {
			add(consCase{Fn: "CirculantBipartiteGraph", P: []int{n, m}})
			for d1 := -m; d1 <= m; d1++ {
				add(consCase{Fn: "CirculantBipartiteGraph", P: []int{n, m, d1}})
				for d2 := d1; d2 <= m; d2++ {
					add(consCase{Fn: "CirculantBipartiteGraph", P: []int{n, m, d1, d2}})
				}
			}
		}
	}
	for n := 3; n <= 24; n++ {
		for k := 0; k <= (n-1)/2; k++ {
			add(consCase{Fn: "GeneralisedPetersenGraph", P: []int{n, k}})
		}
	}
	for n := 0; n <= 20; n++ {
		add(consCase{Fn: "FriendshipGraph", P: []int{n}})
	}
	named := len(cases)
	c.parFor(int64(named), 8, func(lo, hi int64) {
		for _, cc := range cases[lo:hi] {
			cc := cc
			c.Check(func() *Failure { return evalNamed(cc) })
			c.Nontrivial(1)
		}
	})
	c.SetCount("named_family_cases", int64(named))
	// random constructors
	for n := 0; n <= 6; n++ {
		for seed := 0; seed < 32; seed++ {
			for _, p := range []float64{0, 0.5, 1} {
				cc := consCase{Fn: "RandomGraph", P: []int{n, seed}, F: p}
				c.Check(func() *Failure { return evalRandom(cc) })
			}
		}
	}
	for n := 2; n <= 8; n++ {
		for seed := 0; seed < 64; seed++ {
			cc := consCase{Fn: "RandomTree", P: []int{n, seed}}
			c.Check(func() *Failure { return evalRandom(cc) })
			c.Nontrivial(1)
		}
	}
	// transformations on every labelled graph with n <= 5
	var tcases []consCase
	for n := 0; n <= 5; n++ {
		var seqs [][]int
		var seq []int
		used := make([]bool, n)
		var rec func()
		rec = func() {
			seqs = append(seqs, append([]int{}, seq...))
			for v := 0; v < n; v++ {
				if !used[v] {
					used[v] = true
					seq = append(seq, v)
					rec()
					seq = seq[:len(seq)-1]
					used[v] = false
				}
			}
		}
		rec()
		for m := uint64(0); m < 1<<uint(edgeCount(n)); m++ {
			if n <= 4 {
				// chains of two transformations on the same value (every argument combination)
				for _, rep := range []string{"dense", "sparse"} {
					for i := 0; i < n; i++ {
						for j := 0; j < n; j++ {
							if i == j {
								continue
							}
							for k := 0; k < n-1; k++ {
								for l := 0; l < n-1; l++ {
									if k != l {
										tcases = append(tcases, consCase{Fn: "ContractThenSplit", N: n, Mask: m, Rep: rep, V: []int{i, j, k, l}})
									}
								}
							}
							for k := 0; k < n+1; k++ {
								for l := 0; l < n+1; l++ {
									if k != l {
										tcases = append(tcases, consCase{Fn: "SplitThenContract", N: n, Mask: m, Rep: rep, V: []int{i, j, k, l}})
									}
								}
							}
						}
					}
				}
			}
			for _, rep := range []string{"dense", "sparse", "dense-bytes"} {
				for _, fn := range []string{"ComplementDense", "Complement", "LineGraphDense"} {
					tcases = append(tcases, consCase{Fn: fn, N: n, Mask: m, Rep: rep})
				}
				if n <= 4 || m%8 == 3 || c.Thorough() {
					for _, s := range seqs {
						tcases = append(tcases, consCase{Fn: "InducedSubgraphView", N: n, Mask: m, Rep: rep, V: s})
					}
				}
				for i := 0; i < n; i++ {
					for j := 0; j < n; j++ {
						tcases = append(tcases, consCase{Fn: "SplitEdge", N: n, Mask: m, Rep: rep, V: []int{i, j}})
						tcases = append(tcases, consCase{Fn: "Contract", N: n, Mask: m, Rep: rep, V: []int{i, j}})
					}
				}
			}
			for _, fn := range []string{"Graph6Decode", "Sparse6Decode", "MulticodeDecode"} {
				tcases = append(tcases, consCase{Fn: fn, N: n, Mask: m})
			}
			for v := 0; v < 4; v++ {
				tcases = append(tcases, consCase{Fn: "NewSparse", N: n, Mask: m, V: []int{v}})
			}
		}
	}
	ndN, prN, vhN := 4, 6, 4
	if c.Thorough() {
		ndN, prN, vhN = 5, 8, 5
	}
	c.Bound("newdense_all_byte_slices_n", ndN)
	c.Bound("prufer_all_codes_n", prN)
	c.Bound("view_histories_n", vhN)
	for n := 0; n <= ndN; n++ {
		total := uint64(1)
		for i := 0; i < edgeCount(n); i++ {
			total *= 3
		}
		for x := uint64(0); x < total; x++ {
			tcases = append(tcases, consCase{Fn: "NewDense", N: n, Mask: x})
		}
	}
	for n := 2; n <= prN; n++ {
		total := 1
		for i := 0; i < n-2; i++ {
			total *= n
		}
		for idx := 0; idx < total; idx++ {
			code := make([]int, n-2)
			x := idx
			for i := range code {
				code[i] = x % n
				x /= n
			}
			tcases = append(tcases, consCase{Fn: "PruferDecode", V: code})
		}
	}
	c.parFor(int64(len(tcases)), 256, func(lo, hi int64) {
		for _, cc := range tcases[lo:hi] {
			cc := cc
			switch cc.Fn {
			case "NewDense":
				c.Check(func() *Failure { return evalNewDense(cc) })
			case "NewSparse":
				c.Check(func() *Failure { return evalNewSparse(cc) })
			case "Graph6Decode", "Sparse6Decode", "MulticodeDecode":
				c.Check(func() *Failure { return evalDecoderOutput(cc) })
			case "PruferDecode":
				c.Check(func() *Failure { return evalPruferOutput(cc) })
			default:
				c.Check(func() *Failure { return evalTransform(cc) })
			}
			if cc.N >= 2 || len(cc.V) > 0 {
				c.Nontrivial(1)
			}
		}
	})
	if c.Thorough() {
		// thorough: the same on every labelled graph with 6 vertices, generated inside the workers (the case list
		// would not fit in memory): all transformations, every pair for SplitEdge/Contract, every one of the 1957 vertex
		// sequences for the view, all decoder outputs
		n := 6
		var all [][]int
		var seq []int
		used := make([]bool, n)
		var rec func()
		rec = func() {
			all = append(all, append([]int{}, seq...))
			for v := 0; v < n; v++ {
				if !used[v] {
					used[v] = true
					seq = append(seq, v)
					rec()
					seq = seq[:len(seq)-1]
					used[v] = false
				}
			}
		}
		rec()
		var n6 int64
		c.parFor(1<<uint(edgeCount(n)), 16, func(lo, hi int64) {
			cnt := int64(0)
			run := func(cc consCase) {
				cnt++
				switch cc.Fn {
				case "NewSparse":
					c.Check(func() *Failure { return evalNewSparse(cc) })
				case "Graph6Decode", "Sparse6Decode", "MulticodeDecode":
					c.Check(func() *Failure { return evalDecoderOutput(cc) })
				default:
					c.Check(func() *Failure { return evalTransform(cc) })
				}
			}
			for mm := lo; mm < hi; mm++ {
				m := uint64(mm)
				for _, rep := range []string{"dense", "sparse"} {
					for _, fn := range []string{"ComplementDense", "Complement", "LineGraphDense"} {
						run(consCase{Fn: fn, N: n, Mask: m, Rep: rep})
					}
					for _, sq := range all {
						run(consCase{Fn: "InducedSubgraphView", N: n, Mask: m, Rep: rep, V: sq})
					}
					for i := 0; i < n; i++ {
						for j := 0; j < n; j++ {
							run(consCase{Fn: "SplitEdge", N: n, Mask: m, Rep: rep, V: []int{i, j}})
							run(consCase{Fn: "Contract", N: n, Mask: m, Rep: rep, V: []int{i, j}})
						}
					}
				}
				for _, fn := range []string{"Graph6Decode", "Sparse6Decode", "MulticodeDecode"} {
					run(consCase{Fn: fn, N: n, Mask: m})
				}
				for v := 0; v < 4; v++ {
					run(consCase{Fn: "NewSparse", N: n, Mask: m, V: []int{v}})
				}
			}
			c.Nontrivial(cnt)
			atomic.AddInt64(&n6, cnt)
		})
		c.SetCount("cases_on_all_graphs_with_6_vertices", n6)
		c.Rule += "; THOROUGH: additionally every labelled graph with 6 vertices (transformations, every pair for SplitEdge/Contract, all 1957 view sequences, decoder outputs), NewDense byte slices for n=5, Pruefer codes for n<=8, view histories for n=5"
	}
	// decoder outputs on strings that are not the reference encoding of anything in particular: every string of the
	// families C08 enumerates (all short strings over a reduced alphabet, single edits of valid encodings). Whatever
	// the decoders accept must be a well-formed graph. Evaluated in isolated workers; a crash or hang there is C08's
	// verdict, not this check's.
	for _, dec := range []string{"graph6", "sparse6"} {
		strs := c08Strings(dec, false)
		var batches []interface{}
		for i := 0; i < len(strs); i += 4000 {
			j := i + 4000
			if j > len(strs) {
				j = len(strs)
			}
			batches = append(batches, decBatch{Decoder: dec, Strs: strs[i:j]})
		}
		c.RunIsolatedEx("decoder-strings-batch", batches, 180*time.Second, func(i int, timedOut bool, stderr string) *Failure { return nil }, func(i int, f *Failure) {
			c.Fail(f)
		})
		c.SetCount("decoder_output_strings_"+dec, int64(len(strs)))
	}
	c06Large(c)
	// views stay live: query, edit the underlying graph, query again
	var vcs []viewCase
	for n := 2; n <= vhN; n++ {
		vcs = append(vcs, viewHistoryCases(n, "observers")...)
	}
	c.parFor(int64(len(vcs)), 64, func(lo, hi int64) {
		for _, vc := range vcs[lo:hi] {
			vc := vc
			c.Check(func() *Failure { return evalViewHistory(vc, observeW) })
			c.Nontrivial(1)
		}
	})
	c.SetCount("view_histories", int64(len(vcs)))
	// decoder outputs on structured larger graphs (indices above one byte / word boundaries)
	for _, n := range []int{17, 18, 19, 33, 64, 65, 100} {
		gs := structuredBig(n, n <= 33)
		c.parFor(int64(len(gs)), 4, func(lo, hi int64) {
			for _, g := range gs[lo:hi] {
				g := g
				c.Check(func() *Failure { return evalDecoderOutputBig(g) })
				c.Nontrivial(1)
			}
		})
	}
	per := map[string]int64{}
	for _, cc := range tcases {
		per[cc.Fn]++
	}
	for k, v := range per {
		c.SetCount("cases_"+k, v)
	}
	c.Sample("named", consCase{Fn: "GeneralisedPetersenGraph", P: []int{5, 2}})
	c.Sample("transform", consCase{Fn: "Contract", N: 4, Mask: 0x2b, Rep: "sparse", V: []int{1, 3}})
	c.Sample("newdense", consCase{Fn: "NewDense", N: 3, Mask: 14})
	c.Assume("CirculantBipartiteGraph with m = 0, Cycle/FlowerSnark below their smallest member and other undocumented-panic inputs are treated as outside the accepted domain only where the constructor panics by design")
}

func replayC06(kind string, raw json.RawMessage) *Failure {
	var cc consCase
	if err := json.Unmarshal(raw, &cc); err != nil {
		return &Failure{Class: "replay/bad-file", What: err.Error()}
	}
	switch kind {
	case "named":
		return evalNamed(cc)
	case "transform":
		return evalTransform(cc)
	case "newdense":
		return evalNewDense(cc)
	case "newsparse":
		return evalNewSparse(cc)
	case "random":
		return evalRandom(cc)
	case "decoder-output":
		return evalDecoderOutput(cc)
	case "prufer-output":
		return evalPruferOutput(cc)
	case "decoder-strings-batch":
		var b decBatch
		if err := json.Unmarshal(raw, &b); err != nil {
			return &Failure{Class: "replay/bad-file", What: err.Error()}
		}
		return evalDecoderStrings(b)
	case "transform-large":
		var lc c06LargeCase
		if err := json.Unmarshal(raw, &lc); err != nil {
			return &Failure{Class: "replay/bad-file", What: err.Error()}
		}
		return evalC06Large(lc)
	case "view-history":
		var vc viewCase
		json.Unmarshal(raw, &vc)
		return evalViewHistory(vc, observeW)
	case "decoder-output-big":
		var x struct {
			N     int      `json:"n"`
			Edges [][2]int `json:"edges"`
		}
		json.Unmarshal(raw, &x)
		return evalDecoderOutputBig(&EG{N: x.N, Edges: x.Edges})
	}
	return &Failure{Class: "replay/unsupported-kind", What: kind}
}

func init() { register("C06", runC06, replayC06) }
