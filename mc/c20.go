package main

// C20: TSPLIB output well formed and faithful; every write failure is reported.
// Inputs: all weight functions over a value set for small n. Faults: every index of the underlying
// Write calls x fault kind (fault enumeration over the real write path through an io.Writer seam).

import (
	"bytes"
	"encoding/json"
	"errors"
	"fmt"
	"io"
	"math"
	"strconv"
	"strings"

	"github.com/Tom-Johnston/mamba/tsp"
)

var tspValues = []int{math.MinInt64, -1000000, -1, 0, 7, 123456789, math.MaxInt64}

type tspCase struct {
	N       int    `json:"n"`
	Weights []int  `json:"weights_lower_triangle_row_major"` // w(i,j), j<i, index i(i-1)/2+j
	FaultAt int    `json:"fault_at_write,omitempty"`
	Kind    string `json:"fault_kind,omitempty"` // a trailing "+sw": the writer also implements io.StringWriter
	// StringWriter: fault-free run through a writer that also implements io.StringWriter; Nested: the weight function
	// calls LIB itself (on its own writer) before answering
	StringWriter bool `json:"string_writer,omitempty"`
	Nested       bool `json:"weights_call_LIB,omitempty"`
}

type faultWriter struct {
	buf    bytes.Buffer
	writes int
	at     int
	kind   string // "", perm-zero, perm-short, transient-zero, transient-short
	fired  bool
}

var errInjected = errors.New("injected write failure")

// swWriter is the same fault-injecting writer that also implements io.StringWriter (as *os.File and *bufio.Writer
// do): code that takes the WriteString path must report failures all the same. Both entry points count as writes.
type swWriter struct{ *faultWriter }

func (w swWriter) WriteString(s string) (int, error) { return w.faultWriter.Write([]byte(s)) }

func (w *faultWriter) Write(p []byte) (int, error) {
	idx := w.writes
	w.writes++
	if w.kind == "" || idx < w.at {
		return w.buf.Write(p)
	}
	perm := strings.HasPrefix(w.kind, "perm")
	if idx > w.at && !perm {
		return w.buf.Write(p)
	}
	w.fired = true
	if strings.HasSuffix(w.kind, "short") && len(p) > 1 {
		n := len(p) / 2
		w.buf.Write(p[:n])
		return n, errInjected
	}
	return 0, errInjected
}

func tspWeightsFn(tc tspCase, calls *[][2]int) func(i, j int) int {
	return func(i, j int) int {
		*calls = append(*calls, [2]int{i, j})
		if j < 0 || i < 0 || j >= i || i >= tc.N {
			return 424242
		}
		return tc.Weights[i*(i-1)/2+j]
	}
}

func tspVariant(tc tspCase) string {
	v := ""
	if tc.StringWriter {
		v += " (writer with WriteString)"
	}
	if tc.Nested {
		v += " (weights call LIB)"
	}
	return v
}

func evalTSP(tc tspCase) *Failure {
	mk := func(cl, what string) *Failure {
		k := "tsp"
		return &Failure{Class: "tsp/" + cl, What: fmt.Sprintf("n=%d weights=%v fault=%s@%d%s: %s", tc.N, tc.Weights, tc.Kind, tc.FaultAt, tspVariant(tc), what), Kind: k, Replay: tc}
	}
	var calls [][2]int
	w := &faultWriter{at: tc.FaultAt, kind: strings.TrimSuffix(tc.Kind, "+sw")}
	var dst io.Writer = w
	if tc.StringWriter || strings.HasSuffix(tc.Kind, "+sw") {
		dst = swWriter{w}
	}
	wf := tspWeightsFn(tc, &calls)
	if tc.Nested {
		// the weight function itself writes another (smaller) problem with LIB before it answers
		inner := wf
		wf = func(i, j int) int {
			var junk bytes.Buffer
			if e := tsp.LIB(&junk, 3, func(a, b int) int { return -(a*10 + b) }); e != nil || !strings.Contains(junk.String(), "DIMENSION: 3") {
				panic(fmt.Sprintf("inner LIB call failed: %v %q", e, junk.String()))
			}
			return inner(i, j)
		}
	}
	var err error
	if msg, p := try(func() { err = tsp.LIB(dst, tc.N, wf) }); p {
		return mk("panic", msg)
	}
	for _, c := range calls {
		if !(0 <= c[1] && c[1] < c[0] && c[0] < tc.N) {
			return mk("weights-called-out-of-domain", fmt.Sprintf("weights(%d,%d)", c[0], c[1]))
		}
	}
	if strings.TrimSuffix(tc.Kind, "+sw") != "" {
		if !w.fired {
			return nil // fault position beyond the writes of this run
		}
		if err == nil {
			return mk("write-failure-not-reported/"+tc.Kind, fmt.Sprintf("write #%d failed but LIB returned nil; output so far %q", tc.FaultAt, w.buf.String()))
		}
		return nil
	}
	if err != nil {
		return mk("error-without-fault", err.Error())
	}
	out := w.buf.String()
	lines := strings.Split(out, "\n")
	if len(lines) < 1 || lines[len(lines)-1] != "" {
		return mk("format", "output does not end with a newline")
	}
	lines = lines[:len(lines)-1]
	header := []string{"TYPE: TSP", "DIMENSION: " + strconv.Itoa(tc.N), "DISPLAY_DATA_TYPE: NO_DISPLAY", "EDGE_WEIGHT_TYPE: EXPLICIT", "EDGE_WEIGHT_FORMAT: LOWER_DIAG_ROW", "EDGE_WEIGHT_SECTION"}
	if len(lines) != len(header)+tc.N+1 {
		return mk("format", fmt.Sprintf("%d lines, want %d: %q", len(lines), len(header)+tc.N+1, out))
	}
	for i, h := range header {
		if lines[i] != h {
			return mk("format", fmt.Sprintf("line %d is %q want %q", i, lines[i], h))
		}
	}
	if lines[len(lines)-1] != "EOF" {
		return mk("format", fmt.Sprintf("last line %q want EOF", lines[len(lines)-1]))
	}
	for i := 0; i < tc.N; i++ {
		f := strings.Fields(lines[len(header)+i])
		if len(f) != i+1 {
			return mk("row-shape", fmt.Sprintf("row %d has %d entries: %q", i, len(f), lines[len(header)+i]))
		}
		for j := 0; j <= i; j++ {
			want := 0
			if j < i {
				want = tc.Weights[i*(i-1)/2+j]
			}
			if f[j] != strconv.Itoa(want) {
				return mk("wrong-weight", fmt.Sprintf("row %d entry %d is %s want %d", i, j, f[j], want))
			}
		}
	}
	return nil
}

// evalTSPAfterFailure: a call whose writer fails (must report it), immediately followed by a fault-free call
// on another problem, whose output must be exactly that problem (no state may survive the failed call).
func evalTSPAfterFailure(first, second tspCase) *Failure {
	if f := evalTSP(first); f != nil {
		return f
	}
	if f := evalTSP(second); f != nil {
		f.Class = "tsp/after-a-failed-call/" + f.Class[len("tsp/"):]
		f.What = fmt.Sprintf("after LIB(n=%d) with a write failing (%s at write %d): %s", first.N, first.Kind, first.FaultAt, f.What)
		f.Kind = "tsp-pair"
		f.Replay = []tspCase{first, second}
		return f
	}
	return nil
}

func runC20(c *Ctx) {
	c.Level = "fault_enumeration"
	// histories first, sequentially (state left behind by a failed call would be process-global)
	{
		var pairs int64
		for n := 0; n <= 3; n++ {
			L := n * (n - 1) / 2
			w := make([]int, L)
			for i := range w {
				w[i] = 100 + i
			}
			for p := 0; p < 12+6*n; p++ {
				for _, kind := range []string{"perm-zero", "perm-short", "transient-zero", "transient-short"} {
					first := tspCase{N: n, Weights: w, FaultAt: p, Kind: kind}
					for _, n2 := range []int{0, 2, 4} {
						w2 := make([]int, n2*(n2-1)/2)
						for i := range w2 {
							w2[i] = -7 - i
						}
						second := tspCase{N: n2, Weights: w2}
						for rep := 0; rep < 3; rep++ {
							c.Check(func() *Failure { return evalTSPAfterFailure(first, second) })
							pairs++
						}
					}
				}
			}
		}
		c.SetCount("failed_call_then_clean_call_pairs", pairs)
	}
	c.Rule = "fault-free runs: every weight function over a value set containing MinInt64/MaxInt64/negatives for small n, output parsed back line by line; fault runs: for each (n, weight function over a 3-value set) the W underlying Write calls of the fault-free run are counted, then every p in [0,W) x {permanent, transient} x {zero count, short count} is injected through the io.Writer and LIB must return non-nil; non-trivial = fault run whose fault fired, or fault-free run with n >= 2"
	// fault-free, all weight functions
	type dom struct {
		n    int
		vals []int
	}
	doms := []dom{{0, tspValues}, {1, tspValues}, {2, tspValues}, {3, tspValues}, {4, tspValues[:4]}, {5, []int{-1, 123456789}}}
	if c.Thorough() {
		doms = append(doms, dom{4, tspValues}, dom{5, []int{math.MinInt64, 0, 7, math.MaxInt64}}, dom{6, []int{-1, 5}}, dom{7, []int{-10, 123}})
	}
	for _, d := range doms {
		L := d.n * (d.n - 1) / 2
		total := int64(1)
		for i := 0; i < L; i++ {
			total *= int64(len(d.vals))
		}
		c.parFor(total, 64, func(lo, hi int64) {
			for idx := lo; idx < hi; idx++ {
				w := make([]int, L)
				x := idx
				for i := range w {
					w[i] = d.vals[x%int64(len(d.vals))]
					x /= int64(len(d.vals))
				}
				tc := tspCase{N: d.n, Weights: w}
				c.Check(func() *Failure { return evalTSP(tc) })
				if d.n >= 2 {
					c.Nontrivial(1)
				}
				if idx%5 == 0 || total < 500 {
					t2 := tc
					t2.StringWriter = true
					c.Check(func() *Failure { return evalTSP(t2) })
					t3 := tc
					t3.Nested = true
					c.Check(func() *Failure { return evalTSP(t3) })
				}
			}
		})
		c.Count(fmt.Sprintf("fault_free_n%d_values%d", d.n, len(d.vals)), total)
	}
	// larger dimensions (multi-digit row counts and column alignment): a few structured weight functions
	for _, n := range []int{9, 10, 11, 12, 37, 100, 101, 128, 129, 130, 257} {
		L := n * (n - 1) / 2
		for variant := 0; variant < 7; variant++ {
			w := make([]int, L)
			for i := range w {
				switch variant {
				case 4: // many distinct long values that recur (a formatting cache must not serve stale text)
					w[i] = math.MinInt64 + i%197
				case 5:
					w[i] = 1000 + i%821
				case 6:
					w[i] = (i%4099)*1000003 - 17
				case 0:
					w[i] = i
				case 1:
					w[i] = -(i * 7919) % 100003
				case 2:
					w[i] = tspValues[i%len(tspValues)]
				case 3:
					w[i] = 0
				}
			}
			tc := tspCase{N: n, Weights: w}
			c.Check(func() *Failure { return evalTSP(tc) })
			c.Nontrivial(1)
			if n <= 37 {
				tn := tc
				tn.Nested = true
				c.Check(func() *Failure { return evalTSP(tn) })
				ts := tc
				ts.StringWriter = true
				c.Check(func() *Failure { return evalTSP(ts) })
			}
			if n <= 12 || (variant == 1 && n >= 128 && n <= 130) || (c.Thorough() && variant <= 1) {
				// fault positions for this run: all of them for n <= 12; for n around 128 the first and last 12 writes
				// and every 61st in between (stated bound)
				var calls [][2]int
				rec := &faultWriter{}
				if tsp.LIB(rec, n, tspWeightsFn(tc, &calls)) == nil {
					var ps []int
					for p := 0; p < rec.writes; p++ {
						if n <= 12 || p < 12 || p >= rec.writes-12 || p%61 == 0 || (c.Thorough() && n <= 130) || (c.Thorough() && p%7 == 0) {
							ps = append(ps, p)
						}
					}
					c.parFor(int64(len(ps)), 1, func(lo, hi int64) {
						for _, p := range ps[lo:hi] {
							for _, kind := range []string{"perm-zero", "transient-zero", "transient-short"} {
								ft := tspCase{N: n, Weights: w, FaultAt: p, Kind: kind}
								c.Check(func() *Failure { return evalTSP(ft) })
								c.Nontrivial(1)
							}
						}
					})
				}
			}
		}
	}
	// fault enumeration
	fvals := []int{math.MinInt64, 0, 31}
	maxN := 4
	if c.Thorough() {
		maxN = 5
		c.Rule += "; THOROUGH: fault runs for all 59049 weight functions over the 3-value set at n=5; every write position for n in {37,100,101,128,129,130} and every 7th for n=257, two weight functions each; fault-free runs over 4 values at n=5 and 2 values at n=6,7"
	}
	var faultRuns, fired, maxW int64
	for n := 0; n <= maxN; n++ {
		L := n * (n - 1) / 2
		total := int64(1)
		for i := 0; i < L; i++ {
			total *= int64(len(fvals))
		}
		if n == 5 && !c.Thorough() {
			total = 243 // first 5 positions vary, the rest stay at the first value
		}
		c.parFor(total, 8, func(lo, hi int64) {
			for idx := lo; idx < hi; idx++ {
				w := make([]int, L)
				x := idx
				for i := range w {
					w[i] = fvals[x%3]
					x /= 3
				}
				// count the writes of the fault-free run
				var calls [][2]int
				rec := &faultWriter{}
				base := tspCase{N: n, Weights: w}
				if err := func() (err error) {
					defer func() {
						if r := recover(); r != nil {
							err = fmt.Errorf("panic %v", r)
						}
					}()
					return tsp.LIB(rec, n, tspWeightsFn(base, &calls))
				}(); err != nil {
					continue // reported by the fault-free phase
				}
				W := rec.writes
				c.mu.Lock()
				if int64(W) > maxW {
					maxW = int64(W)
				}
				c.mu.Unlock()
				// the number of write calls can differ when the writer offers WriteString: count them separately
				recSW := &faultWriter{}
				var calls2 [][2]int
				Wsw := 0
				if e := func() (err error) {
					defer func() {
						if r := recover(); r != nil {
							err = fmt.Errorf("panic %v", r)
						}
					}()
					return tsp.LIB(swWriter{recSW}, n, tspWeightsFn(base, &calls2))
				}(); e == nil {
					Wsw = recSW.writes
				}
				for p := 0; p < Wsw; p++ {
					for _, kind := range []string{"perm-zero+sw", "transient-zero+sw", "transient-short+sw"} {
						if n == 5 && idx%9 != 0 {
							continue
						}
						tc := tspCase{N: n, Weights: w, FaultAt: p, Kind: kind}
						c.Check(func() *Failure { return evalTSP(tc) })
						c.Nontrivial(1)
						c.mu.Lock()
						faultRuns++
						c.mu.Unlock()
					}
				}
				for p := 0; p < W; p++ {
					for _, kind := range []string{"perm-zero", "perm-short", "transient-zero", "transient-short"} {
						tc := tspCase{N: n, Weights: w, FaultAt: p, Kind: kind}
						c.Check(func() *Failure { return evalTSP(tc) })
						c.Nontrivial(1)
						c.mu.Lock()
						faultRuns++
						fired++
						c.mu.Unlock()
					}
				}
			}
		})
	}
	c.SetCount("fault_runs", faultRuns)
	c.SetCount("max_underlying_writes_per_run", maxW)
	c.Sample("fault", tspCase{N: 3, Weights: []int{math.MinInt64, 0, 31}, FaultAt: 4, Kind: "transient-short"})
	c.Sample("fault-free", tspCase{N: 3, Weights: []int{-1, 7, math.MaxInt64}})
	c.Assume("the writer obeys the io.Writer contract (a short count comes with a non-nil error)")
}

func replayC20(kind string, raw json.RawMessage) *Failure {
	if kind == "tsp-pair" {
		var pair []tspCase
		if err := json.Unmarshal(raw, &pair); err != nil || len(pair) != 2 {
			return &Failure{Class: "replay/bad-file", What: fmt.Sprint(err)}
		}
		for i := 0; i < 30; i++ {
			if f := evalTSPAfterFailure(pair[0], pair[1]); f != nil {
				return f
			}
		}
		return nil
	}
	if kind != "tsp" {
		return unsupportedKind(kind)
	}
	var tc tspCase
	if err := json.Unmarshal(raw, &tc); err != nil {
		return &Failure{Class: "replay/bad-file", What: err.Error()}
	}
	return evalTSP(tc)
}

func init() { register("C20", runC20, replayC20) }
