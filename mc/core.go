package main

// Framework shared by all property checks: context, counters, evidence writer,
// known-findings matcher, replay files, parallel-for, panic capture.

import (
	"encoding/json"
	"fmt"
	"os"
	"path/filepath"
	"runtime"
	"runtime/debug"
	"sort"
	"strconv"
	"strings"
	"sync"
	"sync/atomic"
	"time"
)

const verifRoot = "/verif"

// Failure describes one failing case. Class is a narrow classifier (one defect each);
// Replay is a JSON-serialisable description from which the case can be re-evaluated.
type Failure struct {
	Class  string      `json:"classifier"`
	What   string      `json:"what"`
	Kind   string      `json:"kind"`
	Replay interface{} `json:"case"`
	// NoRepro: the failure is a call still running at its deadline; the leaked goroutine keeps a core busy,
	// so Check does not re-evaluate it five times
	NoRepro bool `json:"-"`
}

type findingAcc struct {
	first *Failure
	count int64
}

type knownFinding struct {
	Property   string `json:"property"`
	Classifier string `json:"classifier"`
	Status     string `json:"status"` // open | fixed
	Commit     string `json:"commit,omitempty"`
	What       string `json:"what"`
}

type Ctx struct {
	Prop    string
	Tier    string
	Seed    int64
	Workers int
	Level   string
	Rule    string

	start    time.Time
	deadline time.Time

	evals      int64
	nontrivial int64
	states     int64
	trans      int64
	traces     int64

	mu         sync.Mutex
	counters   map[string]int64
	samples    []interface{}
	sampleKeys map[string]bool
	findings   map[string]*findingAcc
	notes      []string
	assume     []string
	bounds     map[string]interface{}
	capHit     bool
	harnessErr []string
	outcomes   map[string]map[string]bool

	expiredFlag int32
	skipped     int64
	// disturbed: a parallel worker saw the library panic, or a failure did not reproduce. Both can be caused by
	// interference between the independent values the workers use (a defect, but not of this property), so main
	// repeats the whole check with one worker and reports that verdict
	disturbed int32
}

func newCtx(prop, tier string) *Ctx {
	seed := int64(0)
	if s := os.Getenv("VERIF_SEED"); s != "" {
		if v, err := strconv.ParseInt(s, 10, 64); err == nil {
			seed = v
		}
	}
	w := runtime.NumCPU()
	if s := os.Getenv("VERIF_WORKERS"); s != "" {
		if v, err := strconv.Atoi(s); err == nil && v > 0 {
			w = v
		}
	}
	c := &Ctx{Prop: prop, Tier: tier, Seed: seed, Workers: w, Level: "exploration",
		start: time.Now(), counters: map[string]int64{}, findings: map[string]*findingAcc{},
		bounds: map[string]interface{}{}, sampleKeys: map[string]bool{}, outcomes: map[string]map[string]bool{}}
	budget := 10 * time.Minute
	if tier == "thorough" {
		budget = 60 * time.Minute
	}
	if s := os.Getenv("VERIF_BUDGET_S"); s != "" {
		if v, err := strconv.Atoi(s); err == nil && v > 0 {
			budget = time.Duration(v) * time.Second
		}
	}
	c.deadline = c.start.Add(budget)
	// the internal deadline: once it has passed, Check/CheckTimed stop evaluating (parFor still hands out every chunk,
	// so tables and counts that feed aggregate comparisons stay complete; the evidence then says
	// exhaustive:false and which cap was hit; the exit code is still decided by what was evaluated)
	time.AfterFunc(budget, func() { atomic.StoreInt32(&c.expiredFlag, 1) })
	return c
}

// skipAfterDeadline reports whether the internal deadline has passed, recording the cap once.
func (c *Ctx) skipAfterDeadline() bool {
	if atomic.LoadInt32(&c.expiredFlag) == 0 {
		return false
	}
	if atomic.AddInt64(&c.skipped, 1) == 1 {
		c.CapHit(fmt.Sprintf("internal deadline of the %s tier reached: the remaining evaluations were skipped", c.Tier))
	}
	return true
}

func (c *Ctx) Thorough() bool { return c.Tier == "thorough" }

// Expired reports whether the internal tier deadline has passed; a check that
// stops because of it must call CapHit so that the evidence says exhaustive:false.
func (c *Ctx) Expired() bool {
	return atomic.LoadInt32(&c.expiredFlag) == 1 || time.Now().After(c.deadline)
}

func (c *Ctx) CapHit(what string) {
	c.mu.Lock()
	defer c.mu.Unlock()
	c.capHit = true
	c.notes = append(c.notes, "cap: "+what)
}

func (c *Ctx) Evals(n int64)      { atomic.AddInt64(&c.evals, n) }
func (c *Ctx) Nontrivial(n int64) { atomic.AddInt64(&c.nontrivial, n) }
func (c *Ctx) States(n int64)     { atomic.AddInt64(&c.states, n) }
func (c *Ctx) Trans(n int64)      { atomic.AddInt64(&c.trans, n) }
func (c *Ctx) Traces(n int64)     { atomic.AddInt64(&c.traces, n) }

func (c *Ctx) Count(name string, d int64) {
	c.mu.Lock()
	c.counters[name] += d
	c.mu.Unlock()
}

func (c *Ctx) SetCount(name string, v int64) {
	c.mu.Lock()
	c.counters[name] = v
	c.mu.Unlock()
}

func (c *Ctx) Bound(name string, v interface{}) {
	c.mu.Lock()
	c.bounds[name] = v
	c.mu.Unlock()
}

func (c *Ctx) Note(format string, a ...interface{}) {
	c.mu.Lock()
	c.notes = append(c.notes, fmt.Sprintf(format, a...))
	c.mu.Unlock()
}

func (c *Ctx) Assume(s string) {
	c.mu.Lock()
	c.assume = append(c.assume, s)
	c.mu.Unlock()
}

// Outcome records a distinct observed outcome under a family name (non-vacuity evidence).
func (c *Ctx) Outcome(family, outcome string) {
	c.mu.Lock()
	m := c.outcomes[family]
	if m == nil {
		m = map[string]bool{}
		c.outcomes[family] = m
	}
	if len(m) < 100000 {
		m[outcome] = true
	}
	c.mu.Unlock()
}

// Sample keeps at most a few samples per family key.
func (c *Ctx) Sample(family string, x interface{}) {
	c.mu.Lock()
	defer c.mu.Unlock()
	if c.sampleKeys[family] || len(c.samples) >= 40 {
		return
	}
	c.sampleKeys[family] = true
	c.samples = append(c.samples, map[string]interface{}{"family": family, "case": x})
}

func (c *Ctx) HarnessError(format string, a ...interface{}) {
	c.mu.Lock()
	c.harnessErr = append(c.harnessErr, fmt.Sprintf(format, a...))
	c.mu.Unlock()
}

// Fail records a failing case.
func (c *Ctx) Fail(f *Failure) {
	if f == nil {
		return
	}
	c.mu.Lock()
	defer c.mu.Unlock()
	a := c.findings[f.Class]
	if a == nil {
		a = &findingAcc{first: f}
		c.findings[f.Class] = a
	}
	a.count++
}

// Check evaluates one case; a failure is re-evaluated 5 times and must reproduce with
// the same classifier, otherwise it is a harness error (nondeterminism), not a violation.
func (c *Ctx) Check(eval func() *Failure) bool {
	if c.skipAfterDeadline() {
		return true
	}
	atomic.AddInt64(&c.evals, 1)
	f := eval()
	if f == nil {
		return true
	}
	c.mu.Lock()
	_, seen := c.findings[f.Class]
	c.mu.Unlock()
	if !seen && !f.NoRepro {
		for i := 0; i < 5; i++ {
			g := eval()
			if g == nil || g.Class != f.Class {
				atomic.StoreInt32(&c.disturbed, 1)
				c.HarnessError("non-reproducible failure %s: %s", f.Class, f.What)
				return false
			}
		}
	}
	c.Fail(f)
	return false
}

// CheckTimed is Check for cases that may not terminate: eval runs in its own goroutine; if it has not
// returned after d, onTimeout() describes the failure (the goroutine is leaked and keeps spinning, so the
// failure is not re-evaluated five times).
func (c *Ctx) CheckTimed(d time.Duration, eval func() *Failure, onTimeout func() *Failure) bool {
	if c.skipAfterDeadline() {
		return true
	}
	ch := make(chan *Failure, 1)
	go func() {
		var f *Failure
		c.guarded("a timed evaluation", func() { f = eval() })
		ch <- f
	}()
	select {
	case f := <-ch:
		if f == nil {
			atomic.AddInt64(&c.evals, 1)
			return true
		}
		return c.Check(eval)
	case <-time.After(d):
		atomic.AddInt64(&c.evals, 1)
		c.Fail(onTimeout())
		return false
	}
}

// try runs f and reports a panic as a string.
func try(f func()) (msg string, panicked bool) {
	defer func() {
		if r := recover(); r != nil {
			msg = fmt.Sprint(r)
			if len(msg) > 300 {
				msg = msg[:300]
			}
			panicked = true
		}
	}()
	f()
	return "", false
}

// parFor runs fn(i) for i in [0,n) on c.Workers goroutines in chunks.
func (c *Ctx) parFor(n int64, chunk int64, fn func(lo, hi int64)) {
	if chunk <= 0 {
		chunk = 1
	}
	var next int64
	var wg sync.WaitGroup
	w := c.Workers
	if int64(w) > (n+chunk-1)/chunk {
		w = int((n + chunk - 1) / chunk)
	}
	if w < 1 {
		w = 1
	}
	for k := 0; k < w; k++ {
		wg.Add(1)
		go func() {
			defer wg.Done()
			for {
				lo := atomic.AddInt64(&next, chunk) - chunk
				if lo >= n {
					return
				}
				hi := lo + chunk
				if hi > n {
					hi = n
				}
				c.guarded(fmt.Sprintf("work items [%d,%d)", lo, hi), func() { fn(lo, hi) })
			}
		}()
	}
	wg.Wait()
}

// guarded runs f; a panic raised inside the library (outside any try of the check) must not take the harness
// down. With several workers it marks the run as disturbed (main then repeats it with one worker); with one
// worker nothing else was running, so it is a failure of the property under check. A panic in harness code is
// re-raised (exit 2, no verdict).
func (c *Ctx) guarded(what string, f func()) {
	defer func() {
		r := recover()
		if r == nil {
			return
		}
		stack := string(debug.Stack())
		if !panicInLibrary(stack) {
			panic(fmt.Sprintf("%v\n%s", r, stack))
		}
		if c.Workers > 1 {
			atomic.StoreInt32(&c.disturbed, 1)
			c.HarnessError("the library panicked in a parallel worker (%s): %v", what, r)
			return
		}
		if len(stack) > 1500 {
			stack = stack[:1500]
		}
		c.Fail(&Failure{Class: "library-panic/" + c.Prop, What: fmt.Sprintf("%s: the library panics with nothing else running: %v | %s", what, r, strings.ReplaceAll(stack, "\n", " | ")), Kind: "panic", NoRepro: true})
	}()
	f()
}

// panicInLibrary reports whether the innermost non-runtime frame below the panic belongs to the library.
func panicInLibrary(stack string) bool {
	lines := strings.Split(stack, "\n")
	seenPanic := false
	for _, l := range lines {
		if strings.HasPrefix(l, "\t") {
			continue // file:line of the frame above
		}
		if strings.HasPrefix(l, "panic(") {
			seenPanic = true
			continue
		}
		if !seenPanic || l == "" || strings.HasPrefix(l, "runtime.") || strings.HasPrefix(l, "goroutine ") {
			continue
		}
		return strings.HasPrefix(l, "github.com/Tom-Johnston/mamba/")
	}
	return false
}

// unsupportedKind is what a replay function returns for a failure kind it cannot re-evaluate from its case alone
// (aggregate comparisons, recovered panics): "cannot replay", which is neither "passes" nor "fails".
func unsupportedKind(kind string) *Failure {
	return &Failure{Class: "replay/unsupported-kind", What: kind}
}

func loadKnown() []knownFinding {
	b, err := os.ReadFile(filepath.Join(verifRoot, "known_findings.json"))
	if err != nil {
		return nil
	}
	var v struct {
		Findings []knownFinding `json:"findings"`
	}
	if err := json.Unmarshal(b, &v); err != nil {
		fmt.Fprintln(os.Stderr, "known_findings.json unreadable:", err)
		os.Exit(2)
	}
	return v.Findings
}

// Finish writes the evidence file, prints the verdict lines and returns the exit code.
func (c *Ctx) Finish() int {
	wall := time.Since(c.start).Seconds()
	known := map[string]knownFinding{}
	for _, k := range loadKnown() {
		if k.Property == c.Prop && k.Status == "open" {
			known[k.Classifier] = k
		}
	}
	classes := make([]string, 0, len(c.findings))
	for k := range c.findings {
		classes = append(classes, k)
	}
	sort.Strings(classes)
	violations := 0
	knownHits := 0
	var vioSumm []interface{}
	os.MkdirAll(filepath.Join(verifRoot, "replays"), 0o755)
	for _, cl := range classes {
		a := c.findings[cl]
		if k, ok := known[cl]; ok {
			fmt.Printf("KNOWN-FINDING: property=%s %s [%s] (%d cases, first: %s)\n", c.Prop, k.What, cl, a.count, a.first.What)
			knownHits++
			continue
		}
		violations++
		name := strings.NewReplacer("/", "_", " ", "_", ":", "_").Replace(cl)
		path := filepath.Join(verifRoot, "replays", c.Prop+"-"+name+".json")
		rep := map[string]interface{}{"property": c.Prop, "classifier": cl, "what": a.first.What, "kind": a.first.Kind, "case": a.first.Replay, "cases_failing": a.count, "tier": c.Tier}
		b, _ := json.MarshalIndent(rep, "", " ")
		os.WriteFile(path, b, 0o644)
		fmt.Printf("VIOLATION property=%s replay=%s\n", c.Prop, path)
		fmt.Printf("  classifier=%s cases=%d first: %s\n", cl, a.count, a.first.What)
		vioSumm = append(vioSumm, map[string]interface{}{"classifier": cl, "cases": a.count, "first": a.first.What})
	}
	cov := map[string]interface{}{
		"evaluations":         c.evals,
		"distinct_nontrivial": c.nontrivial,
		"rule":                c.Rule,
		"samples":             c.samples,
		"exhaustive":          !c.capHit,
		"counters":            c.counters,
		"bounds":              c.bounds,
		"notes":               c.notes,
	}
	if len(c.samples) == 0 {
		cov["samples"] = []interface{}{}
	}
	if c.states > 0 || c.Level == "model_checking" {
		cov["states"] = c.states
		cov["transitions"] = c.trans
		cov["traces_validated_against_impl"] = c.traces
	}
	oc := map[string]int{}
	for k, m := range c.outcomes {
		oc[k] = len(m)
	}
	cov["distinct_outcomes"] = oc
	if len(vioSumm) > 0 {
		cov["violation_classes"] = vioSumm
	}
	cov["known_findings_hit"] = knownHits
	ev := map[string]interface{}{
		"property_id": c.Prop,
		"tier":        c.Tier,
		"seed":        c.Seed,
		"level":       c.Level,
		"coverage":    cov,
		"assumptions": c.assume,
		"wall_s":      wall,
		"violations":  violations,
	}
	if c.assume == nil {
		ev["assumptions"] = []string{}
	}
	b, _ := json.MarshalIndent(ev, "", " ")
	os.MkdirAll(filepath.Join(verifRoot, "evidence"), 0o755)
	evPath := filepath.Join(verifRoot, "evidence", c.Prop+".json")
	if os.Getenv("VERIF_NO_EVIDENCE") != "" { // mutant runs must not overwrite the committed evidence
		evPath = filepath.Join(os.TempDir(), "verif-mutant-evidence-"+c.Prop+".json")
	}
	if err := os.WriteFile(evPath+".tmp", b, 0o644); err == nil {
		os.Rename(evPath+".tmp", evPath)
	}
	fmt.Printf("%s tier=%s evaluations=%d nontrivial=%d states=%d transitions=%d exhaustive=%v wall=%.1fs violations=%d known=%d\n",
		c.Prop, c.Tier, c.evals, c.nontrivial, c.states, c.trans, !c.capHit, wall, violations, knownHits)
	for i, e := range c.harnessErr {
		if i < 20 {
			fmt.Println("HARNESS-ERROR:", e)
		}
	}
	if violations > 0 {
		// a reproduced violation stands even if other cases behaved non-deterministically (often a symptom of the same defect)
		return 1
	}
	if len(c.harnessErr) > 0 {
		return 2
	}
	return 0
}

func js(v interface{}) string {
	b, _ := json.Marshal(v)
	return string(b)
}
