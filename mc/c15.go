package main

// C15: iterators enumerate exactly the advertised objects, once each, in the documented order,
// and keep reporting exhaustion. Predicate-driven iterators over every predicate in small scope.

import (
	"encoding/json"
	"fmt"
	"os"
	"sort"
	"strings"
	"time"

	"github.com/Tom-Johnston/mamba/itertools"
)

type itCase struct {
	It    string `json:"iterator"`
	P     []int  `json:"params"`
	Pred  uint64 `json:"predicate_bits,omitempty"` // accepted nodes of the prefix tree / relation bits
	PredF string `json:"predicate_family,omitempty"`
}

// drive runs an iterator as a state machine: Next until false (or limit), then three more Next calls.
func drive(next func() bool, value func() string, limit int) (seq []string, class, what string) {
	msg, p := try(func() {
		for next() {
			seq = append(seq, value())
			if len(seq) > limit {
				class, what = "yields-more-than-the-family", fmt.Sprintf("more than %d values", limit)
				return
			}
		}
		for i := 0; i < 3; i++ {
			if next() {
				class, what = "restarts-after-exhaustion", fmt.Sprintf("Next returned true again after reporting exhaustion (call %d after, value %s)", i+1, value())
				return
			}
		}
	})
	if p {
		return seq, "panic", fmt.Sprintf("panics after %d values: %s", len(seq), msg)
	}
	return seq, class, what
}

func compareSeq(got, want []string, ordered bool) (string, string) {
	seen := map[string]bool{}
	for _, g := range got {
		if seen[g] {
			return "repeats-a-value", "value " + g + " yielded twice"
		}
		seen[g] = true
	}
	ws := map[string]bool{}
	for _, w := range want {
		ws[w] = true
	}
	for _, g := range got {
		if !ws[g] {
			return "yields-a-non-member", "value " + g + " is not in the family"
		}
	}
	for _, w := range want {
		if !seen[w] {
			return "misses-a-member", fmt.Sprintf("member %s never yielded (%d of %d yielded)", w, len(got), len(want))
		}
	}
	if ordered {
		for i := range got {
			if got[i] != want[i] {
				return "wrong-order", fmt.Sprintf("position %d is %s, documented order has %s", i, got[i], want[i])
			}
		}
	}
	return "", ""
}

func is(a []int) string { return fmt.Sprint(a) }

// ---- naive generators (the reference) ----

func refCombinations(n, k int) [][]int {
	var out [][]int
	cur := []int{}
	var rec func(start int)
	rec = func(start int) {
		if len(cur) == k {
			out = append(out, append([]int{}, cur...))
			return
		}
		for v := start; v <= n-(k-len(cur)); v++ { // leave room for the remaining k-len(cur)-1 elements
			cur = append(cur, v)
			rec(v + 1)
			cur = cur[:len(cur)-1]
		}
	}
	if k >= 0 {
		rec(0)
	}
	return out
}

func colexLess(a, b []int) bool {
	for i := len(a) - 1; i >= 0; i-- {
		if a[i] != b[i] {
			return a[i] < b[i]
		}
	}
	return false
}

func refMultisetComb(m []int, k int) [][]int { // frequency vectors
	var out [][]int
	cur := make([]int, len(m))
	suffix := make([]int, len(m)+1) // capacity of the types i..
	for i := len(m) - 1; i >= 0; i-- {
		suffix[i] = suffix[i+1] + m[i]
	}
	var rec func(i, left int)
	rec = func(i, left int) {
		if left > suffix[i] {
			return
		}
		if i == len(m) {
			if left == 0 {
				out = append(out, append([]int{}, cur...))
			}
			return
		}
		for c := 0; c <= m[i] && c <= left; c++ {
			cur[i] = c
			rec(i+1, left-c)
		}
		cur[i] = 0
	}
	rec(0, k)
	return out
}

func refMultisetPerms(freq []int) [][]int {
	var out [][]int
	left := append([]int{}, freq...)
	total := 0
	for _, f := range freq {
		total += f
	}
	cur := []int{}
	var rec func()
	rec = func() {
		if len(cur) == total {
			out = append(out, append([]int{}, cur...))
			return
		}
		for v := range left {
			if left[v] > 0 {
				left[v]--
				cur = append(cur, v)
				rec()
				cur = cur[:len(cur)-1]
				left[v]++
			}
		}
	}
	rec()
	return out
}

func refSetPartitions(n int) []string { // in RGS lexicographic order, printed as blocks
	var out []string
	a := make([]int, n)
	var rec func(i, mx int)
	rec = func(i, mx int) {
		if i == n {
			blocks := make([][]int, mx+1)
			for j := range blocks {
				blocks[j] = []int{}
			}
			for v, b := range a {
				blocks[b] = append(blocks[b], v)
			}
			out = append(out, fmt.Sprint(blocks))
			return
		}
		for b := 0; b <= mx+1; b++ {
			a[i] = b
			nm := mx
			if b > mx {
				nm = b
			}
			rec(i+1, nm)
		}
	}
	if n == 0 {
		return []string{"[]"}
	}
	a[0] = 0
	rec(1, 0)
	return out
}

func refIntPartitions(n int) [][]int { // parts descending, reverse lexicographic
	var out [][]int
	cur := []int{}
	var rec func(left, max int)
	rec = func(left, max int) {
		if left == 0 {
			out = append(out, append([]int{}, cur...))
			return
		}
		for p := min2(left, max); p >= 1; p-- {
			cur = append(cur, p)
			rec(left-p, p)
			cur = cur[:len(cur)-1]
		}
	}
	rec(n, n)
	return out
}

func min2(a, b int) int {
	if a < b {
		return a
	}
	return b
}

func refProduct(n []int) [][]int {
	var out [][]int
	cur := make([]int, len(n))
	var rec func(i int)
	rec = func(i int) {
		if i == len(n) {
			out = append(out, append([]int{}, cur...))
			return
		}
		for v := 0; v < n[i]; v++ {
			cur[i] = v
			rec(i + 1)
		}
	}
	rec(0)
	return out
}

func strs(a [][]int) []string {
	out := make([]string, len(a))
	for i, x := range a {
		out[i] = is(x)
	}
	return out
}

// standardise returns the pattern (relative order) of a sequence of distinct ints.
func standardise(a []int) []int {
	s := sortedCopy(a)
	out := make([]int, len(a))
	for i, v := range a {
		out[i] = sort.SearchInts(s, v)
	}
	return out
}

// ---- evaluation of one case ----

func evalIt(ic itCase) *Failure {
	var got []string
	var want []string
	ordered := true
	var cl, what string
	limitOf := func(w int) int { return w + 5 }
	P := ic.P
	fail := func(cl, what string) *Failure {
		name := ic.It
		return &Failure{Class: "itertools/" + name + "/" + cl, What: fmt.Sprintf("%s(%v pred=%s%#x): %s", ic.It, ic.P, ic.PredF, ic.Pred, what), Kind: "it", Replay: ic}
	}
	cons := func(f func()) (string, bool) { return try(f) }
	switch ic.It {
	case "Combinations":
		want = strs(refCombinations(P[0], P[1]))
		var it *itertools.CombinationIterator
		if msg, p := cons(func() { it = itertools.Combinations(P[0], P[1]) }); p {
			return fail("constructor-panics", msg)
		}
		got, cl, what = drive(it.Next, func() string { return is(it.Value()) }, limitOf(len(want)))
	case "CombinationsColex":
		r := refCombinations(P[0], P[1])
		sort.SliceStable(r, func(i, j int) bool { return colexLess(r[i], r[j]) })
		want = strs(r)
		var it *itertools.CombinationColexIterator
		if msg, p := cons(func() { it = itertools.CombinationsColex(P[0], P[1]) }); p {
			return fail("constructor-panics", msg)
		}
		got, cl, what = drive(it.Next, func() string { return is(it.Value()) }, limitOf(len(want)))
	case "MultisetCombinations":
		k := P[len(P)-1]
		m := P[:len(P)-1]
		ordered = false
		want = strs(refMultisetComb(m, k))
		var it *itertools.MultisetCombinationIterator
		if msg, p := cons(func() { it = itertools.MultisetCombinations(append([]int{}, m...), k) }); p {
			return fail("constructor-panics", msg)
		}
		valueMismatch := ""
		step := 0
		got, cl, what = drive(it.Next, func() string {
			step++
			v := it.Value()
			if ic.PredF == "freq-every-2nd" || ic.PredF == "freq-every-3rd" {
				// a caller that looks at Value() every step but asks for FreqValue() only now and then
				every := 2
				if ic.PredF == "freq-every-3rd" {
					every = 3
				}
				if step%every != 0 {
					fr := make([]int, len(m))
					for _, x := range v {
						if x >= 0 && x < len(fr) {
							fr[x]++
						}
					}
					return is(fr)
				}
			}
			f := append([]int{}, it.FreqValue()...)
			var exp []int
			for i, c := range f {
				for j := 0; j < c; j++ {
					exp = append(exp, i)
				}
			}
			if !intsEq(v, exp) && valueMismatch == "" {
				valueMismatch = fmt.Sprintf("FreqValue %v but Value %v", f, v)
			}
			return is(f)
		}, limitOf(len(want)))
		if cl == "" && valueMismatch != "" {
			cl, what = "Value-disagrees-with-FreqValue", valueMismatch
		}
	case "Permutations":
		ordered = false
		want = strs(allPerms(P[0]))
		it := itertools.Permutations(P[0])
		got, cl, what = drive(it.Next, func() string { return is(it.Value()) }, limitOf(len(want)))
	case "LexicographicPermutations":
		want = strs(allPerms(P[0]))
		it := itertools.LexicographicPermutations(P[0])
		got, cl, what = drive(it.Next, func() string { return is(it.Value()) }, limitOf(len(want)))
	case "MultisetPermutations":
		want = strs(refMultisetPerms(P))
		var it *itertools.MultisetPermutationIterator
		if msg, p := cons(func() { it = itertools.MultisetPermutations(append([]int{}, P...)) }); p {
			return fail("constructor-panics", msg)
		}
		got, cl, what = drive(it.Next, func() string { return is(it.Value()) }, limitOf(len(want)))
	case "Partitions":
		want = refSetPartitions(P[0])
		var it *itertools.PartitionIterator
		if msg, p := cons(func() { it = itertools.Partitions(P[0]) }); p {
			return fail("constructor-panics", msg)
		}
		got, cl, what = drive(it.Next, func() string { return fmt.Sprint(it.Value()) }, limitOf(len(want)))
	case "IntegerPartitions":
		want = strs(refIntPartitions(P[0]))
		var it *itertools.IntegerPartitionIterator
		if msg, p := cons(func() { it = itertools.IntegerPartitions(P[0]) }); p {
			return fail("constructor-panics", msg)
		}
		got, cl, what = drive(it.Next, func() string { return is(it.Value()) }, limitOf(len(want)))
	case "Product":
		want = strs(refProduct(P))
		arg := append([]int{}, P...)
		it := itertools.Product(arg...)
		for i := range arg {
			arg[i] = 99 // the iterator documents a deep copy of its argument
		}
		got, cl, what = drive(it.Next, func() string { return is(it.Value()) }, limitOf(len(want)))
	case "RestrictedPrefixProduct":
		if ic.PredF == "few-ones" || ic.PredF == "small-values" {
			// long or wide factor lists whose full product does not fit an int; the predicate keeps the family small
			lim := 2
			accept := func(a []int) bool {
				if ic.PredF == "small-values" {
					return a[len(a)-1] < lim
				}
				ones := 0
				for _, x := range a {
					ones += x
				}
				return ones <= lim
			}
			var rec func(cur []int)
			rec = func(cur []int) {
				if len(cur) == len(P) {
					want = append(want, is(cur))
					return
				}
				for x := 0; x < P[len(cur)]; x++ {
					nx := append(append([]int{}, cur...), x)
					if accept(nx) {
						rec(nx)
					} else if ic.PredF == "small-values" {
						break // monotone in the last coordinate
					}
				}
			}
			rec(nil)
			it := itertools.RestrictedPrefixProduct(func(a []int) bool {
				if len(a) == 0 || len(a) > len(P) || a[len(a)-1] < 0 || a[len(a)-1] >= P[len(a)-1] {
					panic(fmt.Sprintf("predicate called on %v which is not a prefix of the product", a))
				}
				return accept(a)
			}, append([]int{}, P...)...)
			got, cl, what = drive(it.Next, func() string { return is(it.Value()) }, limitOf(len(want)))
			break
		}
		// prefix tree nodes in odometer order of (length, tuple): index by enumeration
		nodes := prefixNodes(P)
		idx := map[string]int{}
		for i, nd := range nodes {
			idx[is(nd)] = i
		}
		pred := func(a []int) bool { return ic.Pred>>uint(idx[is(a)])&1 == 1 }
		for _, t := range refProduct(P) {
			ok := true
			for l := 1; l <= len(t); l++ {
				if !pred(t[:l]) {
					ok = false
					break
				}
			}
			if ok {
				want = append(want, is(t))
			}
		}
		it := itertools.RestrictedPrefixProduct(func(a []int) bool {
			if _, ok := idx[is(a)]; !ok {
				panic(fmt.Sprintf("predicate called on %v which is not a prefix of the product", a))
			}
			return pred(a)
		}, append([]int{}, P...)...)
		got, cl, what = drive(it.Next, func() string { return is(it.Value()) }, limitOf(len(want)))
	case "RestrictedPrefixPermutations":
		n := P[0]
		if ic.PredF == "nearly-identity" {
			// prefixes accepted iff a[i] == i, except that the last two positions are free: 2 permutations
			id := make([]int, n)
			for i := range id {
				id[i] = i
			}
			sw := append([]int{}, id...)
			sw[n-2], sw[n-1] = n-1, n-2
			want = []string{is(id), is(sw)}
			it := itertools.RestrictedPrefixPermutations(n, func(a []int) bool {
				k := len(a) - 1
				return k >= n-2 || a[k] == k
			})
			got, cl, what = drive(it.Next, func() string { return is(it.Value()) }, limitOf(len(want)))
			break
		}
		nodes := injectiveNodes(n)
		idx := map[string]int{}
		for i, nd := range nodes {
			idx[is(nd)] = i
		}
		pred := makePermPredicate(ic, idx)
		for _, t := range allPerms(n) {
			ok := true
			for l := 1; l <= n; l++ {
				if !pred(t[:l]) {
					ok = false
					break
				}
			}
			if ok {
				want = append(want, is(t))
			}
		}
		it := itertools.RestrictedPrefixPermutations(n, func(a []int) bool {
			if _, ok := idx[is(a)]; !ok {
				panic(fmt.Sprintf("predicate called on %v which is not a sequence of distinct elements", a))
			}
			return pred(a)
		})
		got, cl, what = drive(it.Next, func() string { return is(it.Value()) }, limitOf(len(want)))
	case "PermutationsByPattern":
		n := P[0]
		if ic.PredF == "nearly-increasing" {
			// standardised prefixes accepted iff increasing, except that the full-length step may also put the new last
			// element just below the previous one: identity and identity with the last two swapped
			id := make([]int, n)
			for i := range id {
				id[i] = i
			}
			sw := append([]int{}, id...)
			sw[n-2], sw[n-1] = n-1, n-2
			want = []string{is(id), is(sw)}
			ordered = false
			it := itertools.PermutationsByPattern(n, func(a []int) bool {
				for i := 0; i+1 < len(a); i++ {
					if a[i] > a[i+1] && !(len(a) == n && i == n-2 && a[i] == a[i+1]+1) {
						return false
					}
				}
				return true
			})
			got, cl, what = drive(it.Next, func() string { return is(it.Value()) }, limitOf(len(want)))
			break
		}
		var nodes [][]int
		for l := 1; l <= n; l++ {
			nodes = append(nodes, allPerms(l)...)
		}
		idx := map[string]int{}
		for i, nd := range nodes {
			idx[is(nd)] = i
		}
		pred := makePermPredicate(ic, idx)
		ordered = false
		for _, t := range allPerms(n) {
			ok := true
			for l := 1; l <= n; l++ {
				if !pred(standardise(t[:l])) {
					ok = false
					break
				}
			}
			if ok {
				want = append(want, is(t))
			}
		}
		it := itertools.PermutationsByPattern(n, func(a []int) bool {
			if _, ok := idx[is(a)]; !ok {
				panic(fmt.Sprintf("predicate called on %v which is not a permutation of 0..l-1", a))
			}
			return pred(a)
		})
		got, cl, what = drive(it.Next, func() string { return is(it.Value()) }, limitOf(len(want)))
	case "TopologicalSorts":
		n := P[0]
		rel := func(i, j int) bool { return i < j && ic.Pred>>uint(j*(j-1)/2+i)&1 == 1 }
		ordered = false
		large := ic.PredF != ""
		switch ic.PredF {
		case "total-order":
			rel = func(i, j int) bool { return i < j }
		case "total-order-minus-last":
			rel = func(i, j int) bool { return i < j && !(i == n-2 && j == n-1) }
		case "chain-plus-free-top":
			rel = func(i, j int) bool { return i < j && j < n-1 } // n-1 is unconstrained: n sorts
		}
		if large {
			// enumerate the linear extensions directly: insert the free elements into the forced chain
			id := make([]int, n)
			for i := range id {
				id[i] = i
			}
			switch ic.PredF {
			case "total-order":
				want = []string{is(id)}
			case "total-order-minus-last":
				sw := append([]int{}, id...)
				sw[n-2], sw[n-1] = n-1, n-2
				want = []string{is(id), is(sw)}
			case "chain-plus-free-top":
				for pos := 0; pos < n; pos++ {
					var t []int
					for v := 0; v < n-1; v++ {
						if len(t) == pos {
							t = append(t, n-1)
						}
						t = append(t, v)
					}
					if len(t) == n-1 {
						t = append(t, n-1)
					}
					want = append(want, is(t))
				}
			}
		}
		for _, t := range func() [][]int {
			if large {
				return nil
			}
			return allPerms(n)
		}() {
			pos := make([]int, n)
			for p, v := range t {
				pos[v] = p
			}
			ok := true
			for j := 0; j < n && ok; j++ {
				for i := 0; i < j; i++ {
					if rel(i, j) && pos[i] > pos[j] {
						ok = false
						break
					}
				}
			}
			if ok {
				want = append(want, is(t))
			}
		}
		badCall := ""
		it := itertools.TopologicalSorts(n, func(i, j int) bool {
			if i < 0 || j < 0 || i >= n || j >= n {
				badCall = fmt.Sprintf("less(%d,%d) called out of range", i, j)
				return false
			}
			return rel(i, j)
		})
		invBad := ""
		got, cl, what = drive(it.Next, func() string {
			v := it.Value()
			inv := it.InverseValue()
			for p, x := range v {
				if x < 0 || x >= n || inv[x] != p {
					if invBad == "" {
						invBad = fmt.Sprintf("Value %v InverseValue %v", v, inv)
					}
					break
				}
			}
			return is(v)
		}, limitOf(len(want)))
		if cl == "" && badCall != "" {
			cl, what = "less-called-out-of-range", badCall
		}
		if cl == "" && invBad != "" {
			cl, what = "InverseValue-not-inverse", invBad
		}
	default:
		return fail("unknown", "")
	}
	if cl == "" {
		cl, what = compareSeq(got, want, ordered)
	}
	if cl != "" {
		return fail(cl+paramClass(ic), what)
	}
	return nil
}

// paramClass narrows classifiers to boundary parameter classes (one defect each).
func paramClass(ic itCase) string {
	P := ic.P
	switch ic.It {
	case "Combinations", "CombinationsColex":
		if P[1] >= P[0]+2 {
			return "/k>=n+2"
		}
		if P[1] == P[0]+1 {
			return "/k=n+1"
		}
		if P[1] == 0 {
			return "/k=0"
		}
	case "MultisetCombinations":
		if len(P) == 1 {
			return "/no-types"
		}
		if P[len(P)-1] == 0 {
			return "/k=0"
		}
		for _, v := range P[:len(P)-1] {
			if v == 0 {
				return "/zero-multiplicity"
			}
		}
	case "LexicographicPermutations", "Permutations", "Partitions", "IntegerPartitions", "RestrictedPrefixPermutations", "PermutationsByPattern", "TopologicalSorts":
		if P[0] <= 1 {
			return fmt.Sprintf("/n=%d", P[0])
		}
	case "MultisetPermutations":
		s := 0
		for _, f := range P {
			s += f
		}
		if s == 0 {
			return "/empty-multiset"
		}
	case "Product", "RestrictedPrefixProduct":
		if len(P) == 0 {
			return "/no-factors"
		}
		for _, v := range P {
			if v == 0 {
				return "/zero-factor"
			}
		}
	}
	return ""
}

func prefixNodes(n []int) [][]int {
	var out [][]int
	for l := 1; l <= len(n); l++ {
		out = append(out, refProduct(n[:l])...)
	}
	return out
}

func injectiveNodes(n int) [][]int {
	var out [][]int
	cur := []int{}
	used := make([]bool, n)
	var rec func()
	rec = func() {
		if len(cur) > 0 {
			out = append(out, append([]int{}, cur...))
		}
		for v := 0; v < n; v++ {
			if !used[v] {
				used[v] = true
				cur = append(cur, v)
				rec()
				cur = cur[:len(cur)-1]
				used[v] = false
			}
		}
	}
	rec()
	return out
}

func containsPattern(a []int, pat []int) bool {
	k := len(pat)
	n := len(a)
	idx := make([]int, k)
	var rec func(d, start int) bool
	rec = func(d, start int) bool {
		if d == k {
			sub := make([]int, k)
			for i, x := range idx {
				sub[i] = a[x]
			}
			return intsEq(standardise(sub), pat)
		}
		for i := start; i < n; i++ {
			idx[d] = i
			if rec(d+1, i+1) {
				return true
			}
		}
		return false
	}
	return rec(0, 0)
}

var patterns3 = [][]int{{0, 1}, {1, 0}, {0, 1, 2}, {0, 2, 1}, {1, 0, 2}, {1, 2, 0}, {2, 0, 1}, {2, 1, 0}}

// makePermPredicate: PredF "" = explicit bit set over the node index; otherwise a structured family.
func makePermPredicate(ic itCase, idx map[string]int) func([]int) bool {
	switch {
	case ic.PredF == "":
		return func(a []int) bool { return ic.Pred>>uint(idx[is(a)])&1 == 1 }
	case strings.HasPrefix(ic.PredF, "avoid"):
		// Pred bits select which classical patterns must be avoided (hereditary in the standardised prefix)
		return func(a []int) bool {
			for i, pat := range patterns3 {
				if ic.Pred>>uint(i)&1 == 1 && containsPattern(a, pat) {
					return false
				}
			}
			return true
		}
	case ic.PredF == "position-bound":
		// a[i] <= i + Pred
		return func(a []int) bool {
			for i, v := range a {
				if v > i+int(ic.Pred) {
					return false
				}
			}
			return true
		}
	case ic.PredF == "parity":
		// prefixes of length l are accepted iff (sum + l*Pred) is even or l < 2
		return func(a []int) bool {
			s := 0
			for _, v := range a {
				s += v
			}
			return len(a) < 2 || (s+len(a)*int(ic.Pred))%2 == 0
		}
	case ic.PredF == "last-prefix-only":
		// everything accepted except full-length sequences whose last entry is Pred
		return func(a []int) bool { return !(len(a) == ic.P[0] && a[len(a)-1] == int(ic.Pred)) }
	}
	panic("unknown predicate family " + ic.PredF)
}

// libOnlyDrive drives the parameter-only iterators without any reference computation (used to attribute a timeout).
func libOnlyDrive(ic itCase) {
	P := ic.P
	try(func() {
		lim := 50000000
		switch ic.It {
		case "Combinations":
			it := itertools.Combinations(P[0], P[1])
			for i := 0; it.Next() && i < lim; i++ {
			}
		case "CombinationsColex":
			it := itertools.CombinationsColex(P[0], P[1])
			for i := 0; it.Next() && i < lim; i++ {
			}
		case "MultisetCombinations":
			it := itertools.MultisetCombinations(append([]int{}, P[:len(P)-1]...), P[len(P)-1])
			for i := 0; it.Next() && i < lim; i++ {
			}
		case "MultisetPermutations":
			it := itertools.MultisetPermutations(append([]int{}, P...))
			for i := 0; it.Next() && i < lim; i++ {
			}
		case "Product":
			it := itertools.Product(append([]int{}, P...)...)
			for i := 0; it.Next() && i < lim; i++ {
			}
		default:
			select {} // predicate-driven and small families: no separate attribution, treat as the library's
		}
	})
}

func runC15(c *Ctx) {
	c.Level = "exploration"
	c.Rule = "every parameter tuple in a box containing every special-cased boundary (n=0,1; k=0,n,n+1,n+2; zero/repeated multiplicities; empty and zero factors), each iterator driven as a state machine (Next until false, then 3 more calls) and compared with a naive recursive enumeration (sequence where an order is documented, set otherwise); predicate-driven iterators over every predicate (subset of the prefix tree / relation) in small scope plus structured families; non-trivial = family with at least 2 members"
	var cases []itCase
	add := func(ic itCase) { cases = append(cases, ic) }
	maxN := 7
	for n := 0; n <= maxN; n++ {
		for k := 0; k <= n+2; k++ {
			add(itCase{It: "Combinations", P: []int{n, k}})
			add(itCase{It: "CombinationsColex", P: []int{n, k}})
		}
		add(itCase{It: "Permutations", P: []int{n}})
		add(itCase{It: "LexicographicPermutations", P: []int{n}})
	}
	for n := 8; n <= 11; n++ { // larger ground sets for the cheap iterators
		for k := 0; k <= n+2; k++ {
			add(itCase{It: "Combinations", P: []int{n, k}})
			add(itCase{It: "CombinationsColex", P: []int{n, k}})
		}
	}
	for _, v := range [][]int{{5, 5}, {1, 1, 1, 1, 1, 1}, {7}, {2, 0, 0, 5, 1}, {4, 4, 4}, {6, 1, 6}} {
		sum := 0
		for _, x := range v {
			sum += x
		}
		for k := 0; k <= sum+1; k++ {
			add(itCase{It: "MultisetCombinations", P: append(append([]int{}, v...), k)})
		}
		if sum <= 9 {
			add(itCase{It: "MultisetPermutations", P: v})
		}
		add(itCase{It: "Product", P: v})
	}
	add(itCase{It: "Product", P: []int{2, 2, 2, 2, 2, 2, 2}})
	add(itCase{It: "Product", P: []int{10, 11}})
	add(itCase{It: "Permutations", P: []int{8}})
	add(itCase{It: "LexicographicPermutations", P: []int{8}})
	add(itCase{It: "Partitions", P: []int{9}})
	add(itCase{It: "Partitions", P: []int{10}})
	if c.Thorough() {
		add(itCase{It: "Permutations", P: []int{9}})
		add(itCase{It: "LexicographicPermutations", P: []int{9}})
		add(itCase{It: "Partitions", P: []int{11}})
		for n := 12; n <= 15; n++ {
			for k := 0; k <= n+2; k++ {
				add(itCase{It: "Combinations", P: []int{n, k}})
				add(itCase{It: "CombinationsColex", P: []int{n, k}})
			}
		}
	}
	for n := 1; n <= 8; n++ {
		add(itCase{It: "Partitions", P: []int{n}})
	}
	for n := 0; n <= 20; n++ {
		add(itCase{It: "IntegerPartitions", P: []int{n}})
	}
	{
		top := 40
		if c.Thorough() {
			top = 60
		}
		for n := 21; n <= top; n++ {
			add(itCase{It: "IntegerPartitions", P: []int{n}})
		}
	}
	var vecs [][]int
	for l := 0; l <= 4; l++ {
		vecs = append(vecs, refProduct(repeatInt(4, l))...)
	}
	for _, v := range vecs {
		sum := 0
		for _, x := range v {
			sum += x
		}
		for k := 0; k <= sum+1; k++ {
			add(itCase{It: "MultisetCombinations", P: append(append([]int{}, v...), k)})
		}
		if sum <= 8 {
			add(itCase{It: "MultisetPermutations", P: v})
		}
		add(itCase{It: "Product", P: v})
	}
	for _, k := range []int{31, 32, 33, 62, 63, 64, 65, 96, 128} {
		add(itCase{It: "RestrictedPrefixProduct", P: repeatInt(2, k), PredF: "few-ones"})
	}
	// multisets with one long run and a few other elements (the successor step works on a decreasing tail of 17+
	// entries with three or more distinct values): every arrangement, in order
	for _, f := range [][]int{{1, 2, 15}, {15, 2, 1}, {1, 1, 1, 15}, {0, 1, 2, 0, 15}, {2, 1, 16}, {1, 17, 1}, {1, 1, 20}, {20, 1, 1}, {2, 2, 14}, {1, 2, 3, 12}, {1, 30, 1}, {3, 17}, {17, 3}} {
		add(itCase{It: "MultisetPermutations", P: f})
	}
	for _, v := range [][]int{{1, 1, 1}, {2, 1, 2}, {1, 2, 3}, {3, 3}, {2, 2, 2, 2}, {1, 0, 2, 1}, {4, 1, 1, 2}, {3, 2, 1, 1, 2}} {
		tot := 0
		for _, x := range v {
			tot += x
		}
		for k := 0; k <= tot; k++ {
			add(itCase{It: "MultisetCombinations", P: append(append([]int{}, v...), k), PredF: "freq-every-2nd"})
			add(itCase{It: "MultisetCombinations", P: append(append([]int{}, v...), k), PredF: "freq-every-3rd"})
		}
	}
	add(itCase{It: "RestrictedPrefixProduct", P: []int{1 << 16, 1 << 16, 1 << 16, 1 << 16}, PredF: "small-values"})
	add(itCase{It: "RestrictedPrefixProduct", P: []int{1 << 16, 3, 1 << 16, 1 << 16, 1 << 16}, PredF: "small-values"})
	add(itCase{It: "RestrictedPrefixProduct", P: []int{1 << 21, 1 << 21, 1 << 22}, PredF: "small-values"})
	// RestrictedPrefixProduct: all predicates for factor lists with at most 14 prefixes
	rppLimit := 14
	if c.Thorough() {
		rppLimit = 17
	}
	for _, v := range vecs {
		nodes := len(prefixNodes(v))
		hasZero := false
		for _, x := range v {
			if x == 0 {
				hasZero = true
			}
		}
		if hasZero || nodes > rppLimit {
			if hasZero {
				add(itCase{It: "RestrictedPrefixProduct", P: v, Pred: ^uint64(0)})
				add(itCase{It: "RestrictedPrefixProduct", P: v, Pred: 0})
			} else if nodes <= 64 {
				for _, pr := range []uint64{^uint64(0), 0, 0xAAAAAAAAAAAAAAAA, 0x5555555555555555, 0xF0F0F0F0F0F0F0F0, 0x123456789ABCDEF1} {
					add(itCase{It: "RestrictedPrefixProduct", P: v, Pred: pr})
				}
			}
			continue
		}
		for pr := uint64(0); pr < 1<<uint(nodes); pr++ {
			add(itCase{It: "RestrictedPrefixProduct", P: v, Pred: pr})
		}
	}
	for n := 0; n <= 3; n++ {
		nodes := len(injectiveNodes(n))
		for pr := uint64(0); pr < 1<<uint(nodes); pr++ {
			add(itCase{It: "RestrictedPrefixPermutations", P: []int{n}, Pred: pr})
		}
		pn := 0
		for l := 1; l <= n; l++ {
			pn += len(allPerms(l))
		}
		for pr := uint64(0); pr < 1<<uint(pn); pr++ {
			add(itCase{It: "PermutationsByPattern", P: []int{n}, Pred: pr})
		}
	}
	for n := 4; n <= 6; n++ {
		for pr := uint64(0); pr < 256; pr++ {
			add(itCase{It: "RestrictedPrefixPermutations", P: []int{n}, Pred: pr, PredF: "avoid"})
			add(itCase{It: "PermutationsByPattern", P: []int{n}, Pred: pr, PredF: "avoid"})
		}
		for b := uint64(0); b <= uint64(n); b++ {
			add(itCase{It: "RestrictedPrefixPermutations", P: []int{n}, Pred: b, PredF: "position-bound"})
			add(itCase{It: "PermutationsByPattern", P: []int{n}, Pred: b, PredF: "position-bound"})
			add(itCase{It: "RestrictedPrefixPermutations", P: []int{n}, Pred: b, PredF: "last-prefix-only"})
			add(itCase{It: "PermutationsByPattern", P: []int{n}, Pred: b, PredF: "last-prefix-only"})
		}
		for b := uint64(0); b <= 1; b++ {
			add(itCase{It: "RestrictedPrefixPermutations", P: []int{n}, Pred: b, PredF: "parity"})
			add(itCase{It: "PermutationsByPattern", P: []int{n}, Pred: b, PredF: "parity"})
		}
	}
	topN := 6
	for n := 0; n <= topN; n++ {
		for pr := uint64(0); pr < 1<<uint(edgeCount(n)); pr++ {
			add(itCase{It: "TopologicalSorts", P: []int{n}, Pred: pr})
		}
	}
	if only := os.Getenv("VERIF_C15_ONLY"); only != "" {
		var f []itCase
		for _, ic := range cases {
			if ic.It == only {
				f = append(f, ic)
			}
		}
		cases = f
	}
	// parameters beyond one machine word / above 64, where the family is still small enough to enumerate
	for _, n := range []int{63, 64, 65, 66, 70, 130} {
		add(itCase{It: "Combinations", P: []int{n, 1}})
		add(itCase{It: "Combinations", P: []int{n, n - 1}})
		add(itCase{It: "Combinations", P: []int{n, n}})
		add(itCase{It: "CombinationsColex", P: []int{n, 1}})
		add(itCase{It: "CombinationsColex", P: []int{n, n - 1}})
		if n <= 70 {
			add(itCase{It: "Combinations", P: []int{n, 2}})
			add(itCase{It: "CombinationsColex", P: []int{n, 2}})
		}
		// multisets / products over n types
		ones := repeatInt(1, n)
		add(itCase{It: "MultisetCombinations", P: append(append([]int{}, ones...), 1)})
		add(itCase{It: "MultisetCombinations", P: append(append([]int{}, ones...), n-1)})
		p1 := repeatInt(1, n)
		p1[n-1], p1[0], p1[n/2] = 2, 2, 3
		add(itCase{It: "Product", P: p1})
		f := repeatInt(0, n)
		f[n-1], f[n-2] = 2, 1
		add(itCase{It: "MultisetPermutations", P: f})
		// topological sorts of n elements under (almost) a total order, predicate families by name
		add(itCase{It: "TopologicalSorts", P: []int{n}, PredF: "total-order"})
		add(itCase{It: "TopologicalSorts", P: []int{n}, PredF: "total-order-minus-last"})
		add(itCase{It: "TopologicalSorts", P: []int{n}, PredF: "chain-plus-free-top"})
		add(itCase{It: "RestrictedPrefixPermutations", P: []int{n}, PredF: "nearly-identity"})
		add(itCase{It: "PermutationsByPattern", P: []int{n}, PredF: "nearly-increasing"})
	}
	perIt := map[string]int64{}
	for _, ic := range cases {
		perIt[ic.It]++
	}
	for k, v := range perIt {
		c.SetCount("cases_"+k, v)
	}
	c.parFor(int64(len(cases)), 32, func(lo, hi int64) {
		for _, ic := range cases[lo:hi] {
			ic := ic
			c.CheckTimed(15*time.Second, func() *Failure { return evalIt(ic) }, func() *Failure {
				// the evaluation includes the reference enumeration: blame the library only if driving it alone hangs too
				done := make(chan struct{})
				go func() { libOnlyDrive(ic); close(done) }()
				select {
				case <-done:
					c.HarnessError("reference enumeration too slow for %s(%v) (the iterator itself terminates)", ic.It, ic.P)
					return nil
				case <-time.After(15 * time.Second):
				}
				return &Failure{Class: "itertools/" + ic.It + "/does-not-terminate" + paramClass(ic), What: fmt.Sprintf("%s(%v pred=%s%#x): driving the iterator alone did not finish within 15s", ic.It, ic.P, ic.PredF, ic.Pred), Kind: "it", Replay: ic}
			})
		}
	})
	// non-trivial: families with >= 2 members (measured with the reference on parameter-only iterators; all predicate cases with non-constant predicate)
	var nt int64
	for _, ic := range cases {
		if ic.Pred != 0 || len(ic.P) > 1 || (len(ic.P) == 1 && ic.P[0] >= 2) {
			nt++
		}
	}
	c.Nontrivial(nt)
	c.Sample("iterator", itCase{It: "CombinationsColex", P: []int{5, 3}})
	c.Sample("predicate", itCase{It: "TopologicalSorts", P: []int{4}, Pred: 0x2b})
	c.Sample("predicate-family", itCase{It: "PermutationsByPattern", P: []int{5}, Pred: 0x14, PredF: "avoid"})
	c.Assume("predicates are pure functions of their argument and do not retain it")
}

func repeatInt(v, l int) []int {
	r := make([]int, l)
	for i := range r {
		r[i] = v
	}
	return r
}

func replayC15(kind string, raw json.RawMessage) *Failure {
	if kind != "it" {
		return unsupportedKind(kind)
	}
	var ic itCase
	if err := json.Unmarshal(raw, &ic); err != nil {
		return &Failure{Class: "replay/bad-file", What: err.Error()}
	}
	return evalIt(ic)
}

func init() { register("C15", runC15, replayC15) }
