package main

// C05: editable graphs behave as an abstract simple graph under every edit history.
// Explicit-state BFS on the real DenseGraph / SparseGraph objects. The state key is the exact
// concrete content (all exported fields, capacities, and stale bytes/ints between len and cap).

import (
	"encoding/json"
	"fmt"
	"os"
	"strings"
	"sync/atomic"

	"github.com/Tom-Johnston/mamba/graph"
	"github.com/Tom-Johnston/mamba/sortints"
)

type geOp struct {
	Op string `json:"op"` // AV, RV, AE, RE, CP, IS
	I  int    `json:"i,omitempty"`
	J  int    `json:"j,omitempty"`
	V  []int  `json:"v,omitempty"`
}

type geState struct {
	g     graph.EditableGraph
	model *MG
}

type geReplay struct {
	Rep  string `json:"rep"` // dense | sparse
	Init string `json:"init"`
	N    int    `json:"n"`
	Ops  []geOp `json:"ops"`
}

func denseKey(g *graph.DenseGraph) string {
	var sb strings.Builder
	fmt.Fprintf(&sb, "D n=%d m=%d deg=%v|%v/%d E=%v|%v/%d", g.NumberOfVertices, g.NumberOfEdges,
		g.DegreeSequence, g.DegreeSequence[len(g.DegreeSequence):cap(g.DegreeSequence)], cap(g.DegreeSequence),
		g.Edges, g.Edges[len(g.Edges):cap(g.Edges)], cap(g.Edges))
	return sb.String()
}

func sparseKey(g *graph.SparseGraph) string {
	var sb strings.Builder
	fmt.Fprintf(&sb, "S n=%d m=%d deg=%v|%v/%d N=", g.NumberOfVertices, g.NumberOfEdges,
		g.DegreeSequence, g.DegreeSequence[len(g.DegreeSequence):cap(g.DegreeSequence)], cap(g.DegreeSequence))
	for _, nb := range g.Neighbourhoods {
		fmt.Fprintf(&sb, "%v|%v/%d;", []int(nb), []int(nb[len(nb):cap(nb)]), cap(nb))
	}
	// the outer slice's spare slots are never read by the library (append overwrites them); only its capacity matters
	fmt.Fprintf(&sb, "/%d", cap(g.Neighbourhoods))
	return sb.String()
}

func geKey(s geState) string {
	switch g := s.g.(type) {
	case *graph.DenseGraph:
		return denseKey(g)
	case *graph.SparseGraph:
		return sparseKey(g)
	}
	return "?"
}

func cloneBytesCap(b []byte) []byte {
	c := make([]byte, len(b), cap(b))
	copy(c[:cap(b)], b[:cap(b)])
	return c
}

func cloneIntsCap(b []int) []int {
	if b == nil {
		return nil
	}
	c := make([]int, len(b), cap(b))
	copy(c[:cap(b)], b[:cap(b)])
	return c
}

// geClone reproduces the exact concrete state (lengths, capacities and stale content).
func geClone(g graph.EditableGraph) graph.EditableGraph {
	switch g := g.(type) {
	case *graph.DenseGraph:
		return &graph.DenseGraph{NumberOfVertices: g.NumberOfVertices, NumberOfEdges: g.NumberOfEdges,
			DegreeSequence: cloneIntsCap(g.DegreeSequence), Edges: cloneBytesCap(g.Edges)}
	case *graph.SparseGraph:
		nb := make([]sortints.SortedInts, len(g.Neighbourhoods), cap(g.Neighbourhoods))
		for i := range g.Neighbourhoods {
			nb[i] = cloneIntsCap(g.Neighbourhoods[i])
		}
		return &graph.SparseGraph{NumberOfVertices: g.NumberOfVertices, NumberOfEdges: g.NumberOfEdges,
			DegreeSequence: cloneIntsCap(g.DegreeSequence), Neighbourhoods: nb}
	}
	panic("unknown representation")
}

// scribble overwrites every byte/int of g's backing arrays (up to capacity): any state shared with
// another graph then shows up as a change of that graph's key.
func scribble(g graph.EditableGraph) {
	switch g := g.(type) {
	case *graph.DenseGraph:
		e := g.Edges[:cap(g.Edges)]
		for i := range e {
			e[i] ^= 0x55
		}
		d := g.DegreeSequence[:cap(g.DegreeSequence)]
		for i := range d {
			d[i] += 1000
		}
	case *graph.SparseGraph:
		d := g.DegreeSequence[:cap(g.DegreeSequence)]
		for i := range d {
			d[i] += 1000
		}
		for _, nb := range g.Neighbourhoods {
			x := nb[:cap(nb)]
			for i := range x {
				x[i] += 1000
			}
		}
		all := g.Neighbourhoods[:cap(g.Neighbourhoods)]
		for i := range all {
			all[i] = nil
		}
	}
}

var geMaxV = 4

func geOps(s geState) []geOp {
	n := s.model.n
	var ops []geOp
	if n < geMaxV {
		for sub := 0; sub < 1<<uint(n); sub++ {
			var asc []int
			for v := 0; v < n; v++ {
				if sub>>uint(v)&1 == 1 {
					asc = append(asc, v)
				}
			}
			ops = append(ops, geOp{Op: "AV", V: asc})
			if len(asc) >= 2 {
				desc := make([]int, len(asc))
				for i := range asc {
					desc[len(asc)-1-i] = asc[i]
				}
				ops = append(ops, geOp{Op: "AV", V: desc})
				if len(asc) >= 3 { // a rotation: neither ascending nor descending
					rot := append(append([]int{}, asc[1:]...), asc[0])
					ops = append(ops, geOp{Op: "AV", V: rot})
				}
			}
		}
	}
	for i := 0; i < n; i++ {
		ops = append(ops, geOp{Op: "RV", I: i})
		for j := 0; j < n; j++ {
			ops = append(ops, geOp{Op: "AE", I: i, J: j}, geOp{Op: "RE", I: i, J: j})
		}
	}
	ops = append(ops, geOp{Op: "CP"})
	// InducedSubgraph for every sequence of distinct vertices
	var seq []int
	used := make([]bool, n)
	var rec func()
	rec = func() {
		// n >= 6: short sequences only with their first two entries ascending (keeps the alphabet near 1000 per state)
		if !(n >= 6 && len(seq) >= 2 && len(seq) < n-1 && seq[0] > seq[1]) {
			ops = append(ops, geOp{Op: "IS", V: append([]int{}, seq...)})
		}
		for v := 0; v < n; v++ {
			if !used[v] {
				used[v] = true
				seq = append(seq, v)
				rec()
				seq = seq[:len(seq)-1]
				used[v] = false
			}
		}
	}
	rec()
	return ops
}

// geApplyRaw applies op to the real object g and to the model (both mutated / replaced); no cloning here.
func geApplyRaw(g graph.EditableGraph, model *MG, op geOp) (graph.EditableGraph, *MG, *Failure) {
	rep := "dense"
	if _, ok := g.(*graph.SparseGraph); ok {
		rep = "sparse"
	}
	cls := func(s string) string { return "graph-edit/" + rep + "/" + op.Op + "/" + s }
	var out graph.EditableGraph = g
	m := model.clone()
	var arg []int
	if op.V != nil {
		arg = append([]int{}, op.V...)
	} else if op.Op == "AV" || op.Op == "IS" {
		arg = []int{}
	}
	argBefore := append([]int{}, arg...)
	srcKey := ""
	msg, p := try(func() {
		switch op.Op {
		case "AV":
			g.AddVertex(arg)
			m.addVertex(argBefore)
		case "RV":
			g.RemoveVertex(op.I)
			m.removeVertex(op.I)
		case "AE":
			g.AddEdge(op.I, op.J)
			m.set(op.I, op.J, true)
		case "RE":
			g.RemoveEdge(op.I, op.J)
			m.set(op.I, op.J, false)
		case "CP":
			srcKey = geKey(geState{g: g})
			out = g.Copy()
		case "IS":
			srcKey = geKey(geState{g: g})
			out = g.InducedSubgraph(arg)
			m = model.induced(argBefore)
		}
	})
	if p {
		return out, m, &Failure{Class: cls("panic"), What: fmt.Sprintf("%s panics: %s", js(op), msg)}
	}
	if !intsEq(arg, argBefore) {
		return out, m, &Failure{Class: cls("argument-modified"), What: fmt.Sprintf("%s: argument became %v", js(op), arg)}
	}
	// the caller may reuse its slice afterwards
	for i := range arg {
		arg[i] = -7
	}
	if op.Op == "CP" || op.Op == "IS" {
		if out == nil {
			return g, m, &Failure{Class: cls("nil-result"), What: js(op)}
		}
		if k := geKey(geState{g: g}); k != srcKey {
			return out, m, &Failure{Class: cls("source-modified"), What: fmt.Sprintf("%s: source %s -> %s", js(op), srcKey, k)}
		}
		// independence: scribbling over all of the result's storage must not change the source, and vice versa
		probe := geClone(out)
		outKey := geKey(geState{g: out})
		scribble(out)
		if k := geKey(geState{g: g}); k != srcKey {
			return out, m, &Failure{Class: cls("shares-state-with-source"), What: fmt.Sprintf("%s: writing to the result changed the source %s -> %s", js(op), srcKey, k)}
		}
		// restore result, then scribble the source
		out = probe
		out2, _ := tryCopyOp(g, op)
		if out2 != nil {
			k2 := geKey(geState{g: out2})
			scribble(g)
			if k := geKey(geState{g: out2}); k != k2 {
				return out, m, &Failure{Class: cls("shares-state-with-source"), What: fmt.Sprintf("%s: writing to the source changed the result %s -> %s", js(op), k2, k)}
			}
			if k2 != outKey {
				return out, m, &Failure{Class: cls("nondeterministic"), What: fmt.Sprintf("%s twice: %s vs %s", js(op), outKey, k2)}
			}
			// continue the history on a REAL result of the operation (a clone would not reproduce storage that the
			// library lets several neighbourhoods of the result share)
			out = out2
		}
	}
	if w := wellFormed(out, m); w != "" {
		return out, m, &Failure{Class: cls("observers"), What: fmt.Sprintf("after %s: %s (model %v)", js(op), w, m)}
	}
	return out, m, nil
}

func tryCopyOp(g graph.EditableGraph, op geOp) (out graph.EditableGraph, panicked bool) {
	_, p := try(func() {
		if op.Op == "CP" {
			out = g.Copy()
		} else {
			out = g.InducedSubgraph(append([]int{}, op.V...))
		}
	})
	return out, p
}

func geApply(s geState, op geOp) (geState, *Failure) {
	g := geClone(s.g)
	out, m, f := geApplyRaw(g, s.model, op)
	return geState{g: out, model: m}, f
}

func geInit(rep, kind string, n int) geState {
	m := newMG(n)
	if kind == "complete" {
		for i := 0; i < n; i++ {
			for j := 0; j < i; j++ {
				m.set(i, j, true)
			}
		}
	}
	if rep == "dense" {
		if kind == "empty" {
			return geState{g: graph.NewDense(n, nil), model: m}
		}
		return geState{g: denseFromMG(m), model: m}
	}
	if kind == "empty" {
		return geState{g: graph.NewSparse(n, nil), model: m}
	}
	return geState{g: sparseFromMG(m), model: m}
}

func geReplayTrace(r geReplay) (string, *Failure) {
	s := geInit(r.Rep, r.Init, r.N)
	if w := wellFormed(s.g, s.model); w != "" {
		return "", &Failure{Class: "graph-edit/" + r.Rep + "/init/observers", What: w}
	}
	g, m := s.g, s.model
	for _, op := range r.Ops {
		var f *Failure
		g, m, f = geApplyRaw(g, m, op)
		if f != nil {
			return "", f
		}
	}
	return geKey(geState{g: g}), nil
}

// c05Scripted: deterministic long edit scripts on graphs with up to 16 vertices (degrees above 8, capacities that
// grow several times), every step compared with the model on both representations. A fixed family, not a sample:
// script s is generated by an LCG seeded with s.
// c05Large: single operations on graphs with 17..64 vertices (implementations switch strategy above size or
// degree thresholds that the concrete-state BFS, bounded at 5-6 vertices, never reaches): InducedSubgraph on a
// family of vertex lists, RemoveVertex/AddVertex at several positions, Copy - on structured graphs with hubs,
// low-degree vertices and gaps, both representations, each compared with the model.
func c05Large(c *Ctx) {
	type lg struct {
		name string
		m    *MG
	}
	var graphs []lg
	for _, n := range []int{17, 18, 19, 24, 32, 33, 40, 48, 63, 64} {
		mk := func(name string, edge func(i, j int) bool) {
			m := newMG(n)
			for i := 0; i < n; i++ {
				for j := 0; j < i; j++ {
					if edge(j, i) {
						m.set(i, j, true)
					}
				}
			}
			graphs = append(graphs, lg{fmt.Sprintf("%s(%d)", name, n), m})
		}
		mk("path", func(i, j int) bool { return j == i+1 })
		mk("star-hub0", func(i, j int) bool { return i == 0 })
		mk("star-hub-last", func(i, j int) bool { return j == n-1 })
		mk("two-hubs", func(i, j int) bool { return i <= 1 && j >= 2 && (j%3 != 0 || i == 0) })
		mk("few-low-degree", func(i, j int) bool { return (i == 0 || i == 1) && j == 5 || (i >= 6 && (i+j)%4 == 0) })
		x := uint64(n)*7919 + 13
		mk("lcg-sparse", func(i, j int) bool {
			x = x*6364136223846793005 + 1442695040888963407
			return (x>>33)%9 == 0
		})
		mk("cycle+chords", func(i, j int) bool { return j == i+1 || (i == 0 && j == n-1) || (j-i == 7 && i%3 == 0) })
	}
	var cases int64
	c.parFor(int64(len(graphs)), 1, func(lo, hi int64) {
		for _, gr := range graphs[lo:hi] {
			n := gr.m.n
			var lists [][]int
			seq := func(f func(i int) (int, bool), k int) {
				var l []int
				for i := 0; i < k; i++ {
					if v, ok := f(i); ok {
						l = append(l, v)
					}
				}
				lists = append(lists, l)
			}
			seq(func(i int) (int, bool) { return i + 1, true }, n-1)     // 1..n-1
			seq(func(i int) (int, bool) { return i, true }, n-1)         // 0..n-2
			seq(func(i int) (int, bool) { return i, true }, n)           // all
			seq(func(i int) (int, bool) { return n - 1 - i, true }, n)   // reversed
			seq(func(i int) (int, bool) { return (i + 3) % n, true }, n) // rotated
			seq(func(i int) (int, bool) { return 2 * i, 2*i < n }, n)
			seq(func(i int) (int, bool) { return 2*i + 1, 2*i+1 < n }, n)
			seq(func(i int) (int, bool) { return 3 * i, 3*i < n }, n)
			for _, k := range []int{0, 1, 5, n / 2, n - 1} {
				k := k
				seq(func(i int) (int, bool) { return i, i != k }, n)
				seq(func(i int) (int, bool) { return i, i != k && i != (k+2)%n }, n)
			}
			pp := lcgPerm(n, uint64(n)*31+7)
			lists = append(lists, pp, pp[:n-3], pp[:n/2], pp[:2], nil)
			var ops []geOp
			for _, l := range lists {
				if l == nil {
					l = []int{}
				}
				ops = append(ops, geOp{Op: "IS", V: l})
			}
			for _, v := range []int{0, 1, n / 2, n - 2, n - 1} {
				ops = append(ops, geOp{Op: "RV", I: v})
			}
			ops = append(ops, geOp{Op: "CP"}, geOp{Op: "AV", V: lists[5]}, geOp{Op: "AV", V: lists[3]}, geOp{Op: "AV", V: []int{}})
			for _, rep := range []string{"dense", "sparse"} {
				for _, op := range ops {
					if op.Op == "AV" && n >= 64 {
						continue // the model holds at most 64 vertices
					}
					g, _ := geLargeGraph(n, egFromMGAny(gr.m).Edges, rep)
					_, _, f := geApplyRaw(g, gr.m, op)
					atomic.AddInt64(&cases, 1)
					c.Evals(1)
					c.Nontrivial(1)
					if f != nil {
						f.Class = "graph-edit/large/" + f.Class[len("graph-edit/"):]
						f.Kind = "ge-large"
						f.What = fmt.Sprintf("%s, %s: %s", gr.name, rep, f.What)
						f.Replay = geLargeReplay{Graph: gr.name, N: n, Edges: egFromMGAny(gr.m).Edges, Rep: rep, Op: op}
						c.Fail(f)
					}
				}
			}
		}
	})
	c.SetCount("large_graph_single_operation_cases", cases)
	// histories on graphs with a hub of 33..60 neighbours: lists that were long are emptied edge by edge (capacity far
	// above length), then vertices are removed at several positions, edges and vertices added again; every step is
	// compared with the model, both representations
	type hist struct {
		name string
		n    int
		ops  []geOp
	}
	var hs []hist
	for _, leaves := range []int{33, 34, 40, 60} {
		for _, keep := range []int{0, 1, 7, 8, 9, leaves / 4, leaves/4 + 1} {
			for _, rv := range []int{1, 5, leaves / 2, leaves} {
				var ops []geOp
				for v := 1; v <= leaves-keep; v++ { // hub 0 keeps the `keep` highest leaves
					ops = append(ops, geOp{Op: "RE", I: 0, J: v})
				}
				ops = append(ops, geOp{Op: "RV", I: rv}, geOp{Op: "AE", I: 0, J: 2}, geOp{Op: "RV", I: 0}, geOp{Op: "AV", V: []int{3, 1, 0}}, geOp{Op: "AE", I: 1, J: 0}, geOp{Op: "CP"}, geOp{Op: "RV", I: 2})
				hs = append(hs, hist{fmt.Sprintf("star%d keep %d remove %d", leaves, keep, rv), leaves + 1, ops})
			}
		}
	}
	var steps int64
	c.parFor(int64(len(hs)), 1, func(lo, hi int64) {
		for _, h := range hs[lo:hi] {
			for _, rep := range []string{"dense", "sparse"} {
				var edges [][2]int
				for v := 1; v < h.n; v++ {
					edges = append(edges, [2]int{0, v})
				}
				g, m := geLargeGraph(h.n, edges, rep)
				var trace []geOp
				for _, op := range h.ops {
					trace = append(trace, op)
					var f *Failure
					g, m, f = geApplyRaw(g, m, op)
					atomic.AddInt64(&steps, 1)
					if f != nil {
						f.Class = "graph-edit/large-history/" + f.Class[len("graph-edit/"):]
						f.Kind = "ge-large-history"
						f.What = fmt.Sprintf("%s, %s, step %d: %s", h.name, rep, len(trace), f.What)
						f.Replay = geLargeHistory{N: h.n, Edges: edges, Rep: rep, Ops: trace}
						c.Fail(f)
						break
					}
				}
			}
		}
	})
	c.Evals(steps)
	c.Nontrivial(steps)
	c.SetCount("large_graph_history_steps", steps)
}

type geLargeHistory struct {
	N     int      `json:"n"`
	Edges [][2]int `json:"edges"`
	Rep   string   `json:"rep"`
	Ops   []geOp   `json:"ops"`
}

func replayLargeHistory(raw json.RawMessage) *Failure {
	var r geLargeHistory
	if err := json.Unmarshal(raw, &r); err != nil {
		return &Failure{Class: "replay/bad-file", What: err.Error()}
	}
	g, m := geLargeGraph(r.N, r.Edges, r.Rep)
	for _, op := range r.Ops {
		var f *Failure
		g, m, f = geApplyRaw(g, m, op)
		if f != nil {
			f.Class = "graph-edit/large-history/" + f.Class[len("graph-edit/"):]
			return f
		}
	}
	return nil
}

type geLargeReplay struct {
	Graph string   `json:"graph"`
	N     int      `json:"n"`
	Edges [][2]int `json:"edges"`
	Rep   string   `json:"rep"`
	Op    geOp     `json:"op"`
}

func egFromMGAny(m *MG) *EG {
	g := &EG{N: m.n}
	for j := 1; j < m.n; j++ {
		for i := 0; i < j; i++ {
			if m.has(i, j) {
				g.Edges = append(g.Edges, [2]int{i, j})
			}
		}
	}
	return g
}

func geLargeGraph(n int, edges [][2]int, rep string) (graph.EditableGraph, *MG) {
	m := newMG(n)
	for _, e := range edges {
		m.set(e[0], e[1], true)
	}
	if rep == "dense" {
		b := make([]byte, edgeCount(n)) // (denseFromMG goes through a 64-bit edge mask: n <= 11 only)
		for _, e := range edges {
			i, j := e[0], e[1]
			if i > j {
				i, j = j, i
			}
			b[j*(j-1)/2+i] = 1
		}
		return graph.NewDense(n, b), m
	}
	return sparseFromMG(m), m
}

func replayLarge(raw json.RawMessage) *Failure {
	var r geLargeReplay
	if err := json.Unmarshal(raw, &r); err != nil {
		return &Failure{Class: "replay/bad-file", What: err.Error()}
	}
	g, m := geLargeGraph(r.N, r.Edges, r.Rep)
	_, _, f := geApplyRaw(g, m, r.Op)
	if f != nil {
		f.Class = "graph-edit/large/" + f.Class[len("graph-edit/"):]
	}
	return f
}

func c05Scripted(c *Ctx) {
	scripts, length := 48, 260
	if c.Thorough() {
		scripts, length = 400, 400
	}
	var steps int64
	c.parFor(int64(scripts), 1, func(lo, hi int64) {
		for sd := lo; sd < hi; sd++ {
			x := uint64(sd)*2654435761 + 99
			next := func(m int) int {
				x = x*6364136223846793005 + 1442695040888963407
				return int((x >> 33) % uint64(m))
			}
			maxV := 10 + int(sd%7)
			for _, rep := range []string{"dense", "sparse"} {
				st := geInit(rep, []string{"empty", "complete"}[sd%2], int(sd%5))
				g, m := st.g, st.model
				var trace []geOp
				x = uint64(sd)*2654435761 + 99
				for i := 0; i < length; i++ {
					var op geOp
					n := m.n
					r := next(100)
					switch {
					case n < 3 || (r < 22 && n < maxV):
						var nb []int
						for v := 0; v < n; v++ {
							if next(3) != 0 {
								nb = append(nb, v)
							}
						}
						if next(2) == 0 {
							for a, b := 0, len(nb)-1; a < b; a, b = a+1, b-1 {
								nb[a], nb[b] = nb[b], nb[a]
							}
						}
						op = geOp{Op: "AV", V: nb}
					case r < 30:
						op = geOp{Op: "RV", I: next(n)}
					case r < 70:
						op = geOp{Op: "AE", I: next(n), J: next(n)}
					case r < 90:
						op = geOp{Op: "RE", I: next(n), J: next(n)}
					case r < 94:
						op = geOp{Op: "CP"}
					default:
						V := lcgPerm(n, x)
						op = geOp{Op: "IS", V: V[:n-next(2)]}
					}
					trace = append(trace, op)
					var f *Failure
					g, m, f = geApplyRaw(g, m, op)
					if f != nil {
						f.Class = "graph-edit/scripted/" + f.Class[len("graph-edit/"):]
						f.Kind = "ge-script"
						f.Replay = map[string]interface{}{"rep": rep, "script": sd, "steps": len(trace), "ops": trace}
						f.What = fmt.Sprintf("script %d, step %d (n=%d): %s", sd, i, n, f.What)
						c.Fail(f)
						break
					}
				}
			}
			c.mu.Lock()
			steps += int64(2 * length)
			c.mu.Unlock()
		}
	})
	c.Evals(steps)
	c.Trans(steps)
	c.SetCount("scripted_histories", int64(2*scripts))
	c.SetCount("scripted_steps", steps)
}

func runC05(c *Ctx) {
	c.Level = "model_checking"
	c.Rule = "explicit-state BFS over real DenseGraph / SparseGraph objects keyed by their exact concrete content (fields, capacities, stale storage); alphabet = AddVertex(every subset asc/desc/rotated), RemoveVertex(i), AddEdge/RemoveEdge(i,j incl. i=j, present/absent), Copy, InducedSubgraph(every sequence of distinct vertices); after every transition N,M,IsEdge,Neighbours,Degrees = adjacency-set model; Copy/InducedSubgraph storage independence by scribbling; non-trivial state = concrete state with stale storage or spare capacity (history-dependent)"
	type phase struct {
		rep   string
		maxV  int
		depth int
	}
	phases := []phase{{"dense", 5, 0}, {"sparse", 3, 0}, {"sparse", 4, 6}}
	if c.Thorough() {
		phases = []phase{{"dense", 5, 0}, {"dense", 6, 4}, {"sparse", 4, 0}, {"sparse", 5, 4}}
	}
	if s := os.Getenv("VERIF_C05_PHASES"); s != "" { // e.g. "dense:6:0,sparse:4:5" (exploration experiments)
		phases = nil
		for _, f := range strings.Split(s, ",") {
			var ph phase
			x := strings.Split(f, ":")
			ph.rep = x[0]
			fmt.Sscan(x[1], &ph.maxV)
			fmt.Sscan(x[2], &ph.depth)
			phases = append(phases, ph)
		}
	}
	c.Bound("phases(rep,max_vertices,depth;0=closure)", fmt.Sprint(phases))
	var nontriv int64
	for _, ph := range phases {
		rep, depth := ph.rep, ph.depth
		geMaxV = ph.maxV
		tag := fmt.Sprintf("%s_v%d_d%d", rep, ph.maxV, ph.depth)
		type initDesc struct {
			kind string
			n    int
		}
		var inits []geState
		var descs []initDesc
		for n := 0; n <= geMaxV; n++ {
			for _, kind := range []string{"empty", "complete"} {
				s := geInit(rep, kind, n)
				if w := wellFormed(s.g, s.model); w != "" {
					c.Fail(&Failure{Class: "graph-edit/" + rep + "/init/observers", What: fmt.Sprintf("%s n=%d: %s", kind, n, w), Kind: "ge", Replay: geReplay{Rep: rep, Init: kind, N: n}})
					continue
				}
				inits = append(inits, s)
				descs = append(descs, initDesc{kind, n})
			}
		}
		models := map[string]uint64{}
		origin := map[string]int{}
		b := &BFS[geState, geOp]{Key: geKey, Ops: geOps, Apply: geApply, MaxDepth: depth}
		b.OnNew = func(k string, s geState) {
			models[k] = s.model.mask()<<4 | uint64(s.model.n)
			if geHasSpare(s.g) {
				nontriv++
			}
		}
		b.OnMerge = func(k string, s geState) *Failure {
			if models[k] != s.model.mask()<<4|uint64(s.model.n) {
				return &Failure{Class: "graph-edit/" + rep + "/same-state-different-model", What: k}
			}
			return nil
		}
		for i, s := range inits {
			origin[geKey(s)] = i
		}
		rootOf := func(tr []geOp, key string) (string, int) {
			// find the initial state of the trace: walk parents
			k := key
			for {
				e, ok := b.seen[k]
				if !ok || e.depth == 0 {
					break
				}
				k = e.parent
			}
			i := origin[k]
			return descs[i].kind, descs[i].n
		}
		b.Run(c, inits, func(f *Failure, tr []geOp) {
			// locate the root of this trace by replaying from each initial state is unnecessary: the BFS parent chain knows it
			kind, n := "empty", 0
			// the failing transition's parent key is not passed; recover the root by trying every initial state
			for i := range descs {
				r := geReplay{Rep: rep, Init: descs[i].kind, N: descs[i].n, Ops: tr}
				if _, ff := geReplayTrace(r); ff != nil && ff.Class == f.Class {
					kind, n = descs[i].kind, descs[i].n
					break
				}
			}
			f.Kind = "ge"
			f.Replay = geReplay{Rep: rep, Init: kind, N: n, Ops: tr}
			c.Fail(f)
		})
		// conformance of the cloning BFS: replay every state's shortest trace on one real object without any cloning
		var replayed, mismatched int64
		keys := make([]string, 0, len(b.seen))
		for k := range b.seen {
			keys = append(keys, k)
		}
		c.parFor(int64(len(keys)), 64, func(lo, hi int64) {
			for _, k := range keys[lo:hi] {
				tr := b.Trace(k)
				kind, n := rootOf(tr, k)
				got, f := geReplayTrace(geReplay{Rep: rep, Init: kind, N: n, Ops: tr})
				c.Traces(1)
				if f != nil || got != k {
					c.Fail(&Failure{Class: "graph-edit/" + rep + "/clone-vs-real-divergence", What: fmt.Sprintf("trace %s from %s(%d): real object reaches %q, cloned path %q", js(tr), kind, n, got, k), Kind: "ge", Replay: geReplay{Rep: rep, Init: kind, N: n, Ops: tr}})
					mismatched++
				}
				replayed++
			}
		})
		c.Count("states_"+tag, b.NStates)
		c.Count("transitions_"+tag, b.NTrans)
		c.Count("depth_"+tag, int64(b.Depth))
		c.Evals(b.NTrans)
		if b.Closed {
			c.Note("%s: reachable concrete state space with <= %d vertices closed at %d states (depth %d)", rep, geMaxV, b.NStates, b.Depth)
		} else if depth == 0 {
			c.CapHit(rep + " BFS not closed")
		} else {
			c.Note("%s: depth bound %d reached with %d states (not closed; bound is the stated limit)", rep, depth, b.NStates)
		}
		if len(keys) > 0 {
			k := keys[len(keys)/3]
			kind, n := rootOf(nil, k)
			c.Sample("edit-history-"+tag, map[string]interface{}{"init": kind, "n": n, "ops": b.Trace(k), "state": k})
		}
	}
	c05Scripted(c)
	c05Large(c)
	c.Nontrivial(nontriv)
	c.Assume("arguments are valid: vertices in range, AddVertex neighbour lists without repeats")
}

// geHasSpare: some backing array is longer than its slice (the state depends on the history, not only on the graph).
func geHasSpare(g graph.EditableGraph) bool {
	switch g := g.(type) {
	case *graph.DenseGraph:
		return cap(g.Edges) > len(g.Edges) || cap(g.DegreeSequence) > len(g.DegreeSequence)
	case *graph.SparseGraph:
		if cap(g.DegreeSequence) > len(g.DegreeSequence) || cap(g.Neighbourhoods) > len(g.Neighbourhoods) {
			return true
		}
		for _, nb := range g.Neighbourhoods {
			if cap(nb) > len(nb) {
				return true
			}
		}
	}
	return false
}

func replayScript(raw json.RawMessage) *Failure {
	var r struct {
		Rep    string `json:"rep"`
		Script int    `json:"script"`
		Ops    []geOp `json:"ops"`
	}
	if err := json.Unmarshal(raw, &r); err != nil {
		return &Failure{Class: "replay/bad-file", What: err.Error()}
	}
	st := geInit(r.Rep, []string{"empty", "complete"}[r.Script%2], r.Script%5)
	g, m := st.g, st.model
	for _, op := range r.Ops {
		var f *Failure
		g, m, f = geApplyRaw(g, m, op)
		if f != nil {
			return f
		}
	}
	return nil
}

func replayC05(kind string, raw json.RawMessage) *Failure {
	if kind == "ge-script" {
		return replayScript(raw)
	}
	if kind == "ge-large" {
		return replayLarge(raw)
	}
	if kind == "ge-large-history" {
		return replayLargeHistory(raw)
	}
	if kind != "ge" {
		return unsupportedKind(kind)
	}
	var r geReplay
	if err := json.Unmarshal(raw, &r); err != nil {
		return &Failure{Class: "replay/bad-file", What: err.Error()}
	}
	_, f := geReplayTrace(r)
	return f
}

func init() { register("C05", runC05, replayC05) }
