package main

// C17: SortedInts implements finite-set algebra on its canonical representation; ints.Sort sorts.

import (
	"encoding/json"
	"fmt"
	"math"
	"sort"
	"sync/atomic"

	"github.com/Tom-Johnston/mamba/ints"
	"github.com/Tom-Johnston/mamba/sortints"
)

var siU = []int{-3, -1, 0, 1, 2, 5}

func siSubset(bits int) []int {
	r := []int{}
	for i, v := range siU {
		if bits>>uint(i)&1 == 1 {
			r = append(r, v)
		}
	}
	return r
}

func setOf(a []int) map[int]bool {
	m := map[int]bool{}
	for _, v := range a {
		m[v] = true
	}
	return m
}

func sortedOf(m map[int]bool) []int {
	r := []int{}
	for v := range m {
		r = append(r, v)
	}
	sort.Ints(r)
	return r
}

// withCap returns a copy of a with the given extra capacity; the spare region holds sentinels.
func withCap(a []int, extra int) sortints.SortedInts {
	b := make([]int, len(a), len(a)+extra)
	copy(b, a)
	t := b[:cap(b)]
	for i := len(a); i < len(t); i++ {
		t[i] = 7700 + i
	}
	return b
}

func fullDump(a []int) string { return fmt.Sprint(a, a[len(a):cap(a)], cap(a)) }

func strictlyIncreasing(a []int) bool {
	for i := 1; i < len(a); i++ {
		if a[i-1] >= a[i] {
			return false
		}
	}
	return true
}

type siCase struct {
	Fn   string `json:"fn"`
	A    []int  `json:"a,omitempty"`
	B    []int  `json:"b,omitempty"`
	X    int    `json:"x,omitempty"`
	Args []int  `json:"args,omitempty"`
	CapA int    `json:"extra_cap_a,omitempty"`
	N    int    `json:"n,omitempty"`
}

func siFail(class string, sc siCase, what string) *Failure {
	return &Failure{Class: "sortints/" + class, What: fmt.Sprintf("%s: %s", js(sc), what), Kind: "si", Replay: sc}
}

func evalSI(sc siCase) *Failure {
	a := withCap(sc.A, sc.CapA)
	b := withCap(sc.B, 1)
	aDump, bDump := fullDump(a), fullDump(b)
	A, B := setOf(sc.A), setOf(sc.B)
	want := map[int]bool{}
	var got []int
	var gotBool, wantBool, isBool bool
	var gotInt, wantInt int
	isInt := false
	mutatesA := false
	msg, p := try(func() {
		switch sc.Fn {
		case "Union":
			got = sortints.Union(a, b)
			for v := range A {
				want[v] = true
			}
			for v := range B {
				want[v] = true
			}
		case "Intersection":
			got = sortints.Intersection(a, b)
			for v := range A {
				if B[v] {
					want[v] = true
				}
			}
		case "IntersectionSize":
			gotInt = sortints.IntersectionSize(a, b)
			isInt = true
			for v := range A {
				if B[v] {
					wantInt++
				}
			}
		case "SetMinus":
			got = sortints.SetMinus(a, b)
			for v := range A {
				if !B[v] {
					want[v] = true
				}
			}
		case "XOR":
			got = sortints.XOR(a, b)
			for v := range A {
				if !B[v] {
					want[v] = true
				}
			}
			for v := range B {
				if !A[v] {
					want[v] = true
				}
			}
		case "ContainsSorted":
			gotBool = sortints.ContainsSorted(a, b)
			isBool = true
			wantBool = true
			for v := range B {
				if !A[v] {
					wantBool = false
				}
			}
		case "ContainsSingle":
			gotBool = sortints.ContainsSingle(a, sc.X)
			isBool = true
			wantBool = A[sc.X]
		case "Complement":
			got = sortints.Complement(sc.N, a)
			for i := 0; i < sc.N; i++ {
				if !A[i] {
					want[i] = true
				}
			}
		case "Remove":
			mutatesA = true
			a.Remove(sc.X)
			got = a
			for v := range A {
				if v != sc.X {
					want[v] = true
				}
			}
		case "Add":
			mutatesA = true
			args := append([]int{}, sc.Args...)
			a.Add(args...)
			if !intsEq(args, sc.Args) {
				panic("Add modified its argument list")
			}
			got = a
			for v := range A {
				want[v] = true
			}
			for _, v := range sc.Args {
				want[v] = true
			}
		case "NewSortedInts":
			args := append([]int{}, sc.Args...)
			got = sortints.NewSortedInts(args...)
			if !intsEq(args, sc.Args) {
				panic("NewSortedInts modified its argument list")
			}
			for _, v := range sc.Args {
				want[v] = true
			}
			// the result must not alias the argument list
			for i := range args {
				args[i] = 999
			}
		case "UnionMethod":
			mutatesA = true
			a.Union(b)
			got = a
			for v := range A {
				want[v] = true
			}
			for v := range B {
				want[v] = true
			}
		case "UnionMethodSelf":
			mutatesA = true
			a.Union(a)
			got = a
			for v := range A {
				want[v] = true
			}
		default:
			panic("unknown fn " + sc.Fn)
		}
	})
	if p {
		return siFail(sc.Fn+"/panic", sc, "panics: "+msg)
	}
	if isBool {
		if gotBool != wantBool {
			return siFail(sc.Fn+"/wrong-result", sc, fmt.Sprintf("got %v want %v", gotBool, wantBool))
		}
	} else if isInt {
		if gotInt != wantInt {
			return siFail(sc.Fn+"/wrong-result", sc, fmt.Sprintf("got %v want %v", gotInt, wantInt))
		}
	} else {
		w := sortedOf(want)
		if !strictlyIncreasing(got) || !intsEq(got, w) {
			return siFail(sc.Fn+"/wrong-result", sc, fmt.Sprintf("got %v want %v", got, w))
		}
	}
	if !mutatesA && fullDump(a) != aDump {
		return siFail(sc.Fn+"/argument-modified", sc, fmt.Sprintf("a: %s -> %s", aDump, fullDump(a)))
	}
	if fullDump(b) != bDump {
		return siFail(sc.Fn+"/argument-modified", sc, fmt.Sprintf("b: %s -> %s", bDump, fullDump(b)))
	}
	// the functions document "a new SortedInts": writing to the result (as a later mutator would, in place, up
	// to its capacity) must not reach the arguments; for mutators the receiver's new storage must not be b's
	if !isBool && !isInt && got != nil {
		full := got[:cap(got)]
		for i := range full {
			full[i] += 1000003
		}
		if !mutatesA && fullDump(a) != aDump {
			return siFail(sc.Fn+"/result-aliases-argument", sc, fmt.Sprintf("writing to the result changed a: %s -> %s", aDump, fullDump(a)))
		}
		if sc.Fn != "UnionMethodSelf" && fullDump(b) != bDump {
			return siFail(sc.Fn+"/result-aliases-argument", sc, fmt.Sprintf("writing to the result changed b: %s -> %s", bDump, fullDump(b)))
		}
	}
	return nil
}

type rangeCase struct {
	Start, End, Step int
}

func evalRange(rc rangeCase) *Failure {
	s, e, st := rc.Start, rc.End, rc.Step
	wantPanic := (e < s && st > 0) || (e > s && st < 0) || (e != s && st == 0)
	want := map[int]bool{}
	if !wantPanic && s != e {
		// elements start + i*step (i >= 0) lying in the half-open interval from start (included) to end (excluded)
		for x := s; (st > 0 && x < e) || (st < 0 && x > e); x += st {
			want[x] = true
		}
	}
	var got []int
	msg, p := try(func() { got = sortints.Range(s, e, st) })
	mk := func(cl, what string) *Failure {
		return &Failure{Class: "sortints/Range/" + cl, What: fmt.Sprintf("Range(%d,%d,%d): %s", s, e, st, what), Kind: "range", Replay: rc}
	}
	if p != wantPanic {
		if p {
			return mk("unexpected-panic", msg)
		}
		return mk("missing-panic", fmt.Sprintf("returned %v for an infinite set", got))
	}
	if p {
		return nil
	}
	w := sortedOf(want)
	if !strictlyIncreasing(got) || !intsEq(got, w) {
		cl := "wrong-result"
		if st < 0 {
			cl = "negative-step"
		}
		return mk(cl, fmt.Sprintf("got %v want %v", got, w))
	}
	// the result belongs to the caller: mutate it in place (as Remove would), then the same and a larger Range
	// must still be right and the first result must be unaffected by them
	full := got[:cap(got)]
	for i := range full {
		full[i] = -777
	}
	for _, grow := range []int{0, 3} {
		e2 := e
		if st > 0 {
			e2 += grow
		} else if st < 0 {
			e2 -= grow
		}
		var again []int
		if msg, p := try(func() { again = sortints.Range(s, e2, st) }); p {
			return mk("unexpected-panic", msg)
		}
		want2 := map[int]bool{}
		if s != e2 {
			for x := s; (st > 0 && x < e2) || (st < 0 && x > e2); x += st {
				want2[x] = true
			}
		}
		if w2 := sortedOf(want2); !intsEq(again, w2) {
			return mk("result-shares-storage-between-calls", fmt.Sprintf("after the caller overwrote an earlier result, Range(%d,%d,%d) = %v want %v", s, e2, st, again, w2))
		}
		for _, v := range full {
			if v != -777 {
				return mk("result-shares-storage-between-calls", "a later Range call wrote into an earlier result")
			}
		}
	}
	return nil
}

type sortCase struct {
	Data []int `json:"data"`
}

func evalSort(sc sortCase) *Failure {
	a := append([]int{}, sc.Data...)
	b := append([]int{}, sc.Data...)
	if msg, p := try(func() { ints.Sort(a) }); p {
		return &Failure{Class: "ints.Sort/panic", What: fmt.Sprintf("len %d: %s", len(a), msg), Kind: "sort", Replay: sc}
	}
	sort.Ints(b)
	if !intsEq(a, b) {
		d := sc.Data
		if len(d) > 40 {
			d = d[:40]
		}
		return &Failure{Class: "ints.Sort/differs-from-sort.Ints", What: fmt.Sprintf("len %d, input starts %v", len(sc.Data), d), Kind: "sort", Replay: sc}
	}
	return nil
}

// ---- mutation histories (explicit-state BFS on one SortedInts value) ----

type siOp struct {
	Op   string `json:"op"` // add, remove, union
	Args []int  `json:"args"`
}

type siState struct {
	s     sortints.SortedInts
	model string // sorted model set, printed
}

func siKey(st siState) string { return fullDump(st.s) }

func siApply(st siState, op siOp) (siState, *Failure) {
	s := sortints.SortedInts(cloneIntsCap(st.s))
	m := setOf(parseIntList(st.model))
	var msg string
	var p bool
	args := append([]int{}, op.Args...)
	switch op.Op {
	case "add":
		msg, p = try(func() { s.Add(args...) })
		for _, v := range op.Args {
			m[v] = true
		}
	case "remove":
		msg, p = try(func() { s.Remove(args[0]) })
		delete(m, op.Args[0])
	case "union":
		b := sortints.SortedInts(args)
		msg, p = try(func() { s.Union(b) })
		for _, v := range op.Args {
			m[v] = true
		}
	}
	cls := "sortints/history/" + op.Op
	if p {
		return st, &Failure{Class: cls + "/panic", What: fmt.Sprintf("%s on %s panics: %s", js(op), siKey(st), msg)}
	}
	if !intsEq(args, op.Args) {
		return st, &Failure{Class: cls + "/argument-modified", What: fmt.Sprintf("%s on %s: args became %v", js(op), siKey(st), args)}
	}
	w := sortedOf(m)
	if !strictlyIncreasing(s) || !intsEq(s, w) {
		return st, &Failure{Class: cls + "/wrong-result", What: fmt.Sprintf("%s on %s: got %v want %v", js(op), siKey(st), []int(s), w)}
	}
	return siState{s: s, model: fmt.Sprint(w)}, nil
}

func siOps() []siOp {
	var ops []siOp
	for _, x := range siU {
		ops = append(ops, siOp{"add", []int{x}}, siOp{"remove", []int{x}})
		for _, y := range siU {
			ops = append(ops, siOp{"add", []int{x, y}})
		}
	}
	ops = append(ops, siOp{"add", []int{}}, siOp{"remove", []int{4}})
	for b := 0; b < 1<<uint(len(siU)); b++ {
		ops = append(ops, siOp{"union", siSubset(b)})
	}
	return ops
}

type siHist struct {
	Ops []siOp `json:"ops"`
}

func runC17(c *Ctx) {
	c.Level = "exploration"
	c.Rule = "all 64 subsets of U={-3,-1,0,1,2,5}: every ordered pair for the binary functions, every x for Remove/ContainsSingle, every argument list of length <= 4 over U (1555 lists) for Add/NewSortedInts, receivers with 0/1/k spare capacity (sentinel tails), Complement(n<=7), Range over [-5,5]^2 x [-3,3]; explicit-state BFS over mutation histories of one value keyed by exact slice content; ints.Sort vs sort.Ints on all sequences over {0,1,2} of length <= 9, all permutations of length <= 8 and adversarial families up to length 600; non-trivial = case whose operands are both non-empty (or list length >= 2)"
	listLen, seqLen, permLen, rangeSpan, stepSpan := 4, 9, 8, 5, 3
	if c.Thorough() {
		// thorough: an 8-element universe (256 subsets), argument lists up to length 5, longer sort inputs
		siU = []int{-3, -1, 0, 1, 2, 5, 6, 9}
		listLen, seqLen, permLen, rangeSpan, stepSpan = 5, 14, 10, 9, 4
		c.Rule += "; THOROUGH: U={-3,-1,0,1,2,5,6,9} (256 subsets), argument lists of length <= 5 (37449), Range over [-9,9]^2 x [-4,4], sort inputs over {0,1,2} up to length 14 and all permutations up to length 10, adversarial families up to length 2100, mutation histories explored to closure"
	}
	nSub := 1 << uint(len(siU))
	c.Bound("universe_size", len(siU))
	c.Bound("argument_list_length", listLen)
	c.Bound("sort_sequence_length", seqLen)
	c.Bound("sort_permutation_length", permLen)
	// binary functions
	for _, fn := range []string{"Union", "Intersection", "IntersectionSize", "SetMinus", "XOR", "ContainsSorted", "UnionMethod"} {
		caps := []int{0}
		if fn == "UnionMethod" {
			caps = []int{0, 1, 2, 6}
		}
		for a := 0; a < nSub; a++ {
			for b := 0; b < nSub; b++ {
				for _, ca := range caps {
					sc := siCase{Fn: fn, A: siSubset(a), B: siSubset(b), CapA: ca}
					c.Check(func() *Failure { return evalSI(sc) })
					if a != 0 && b != 0 {
						c.Nontrivial(1)
					}
				}
			}
		}
	}
	for a := 0; a < nSub; a++ {
		for _, ca := range []int{0, 1, 6} {
			sc := siCase{Fn: "UnionMethodSelf", A: siSubset(a), CapA: ca}
			c.Check(func() *Failure { return evalSI(sc) })
		}
		for _, x := range append(append([]int{}, siU...), 4, -4, 6) {
			for _, fn := range []string{"Remove", "ContainsSingle"} {
				sc := siCase{Fn: fn, A: siSubset(a), X: x, CapA: a % 2}
				c.Check(func() *Failure { return evalSI(sc) })
				if a != 0 {
					c.Nontrivial(1)
				}
			}
		}
		for n := 0; n <= 7; n++ {
			sc := siCase{Fn: "Complement", A: siSubset(a), N: n}
			c.Check(func() *Failure { return evalSI(sc) })
		}
	}
	// also Complement on subsets of {0..n-1} (the in-range case), all n <= 7
	for n := 0; n <= 7; n++ {
		for sub := 0; sub < 1<<uint(n); sub++ {
			var a []int
			for i := 0; i < n; i++ {
				if sub>>uint(i)&1 == 1 {
					a = append(a, i)
				}
			}
			sc := siCase{Fn: "Complement", A: a, N: n}
			c.Check(func() *Failure { return evalSI(sc) })
			c.Nontrivial(1)
		}
	}
	// larger sets (binary-search and fast-path thresholds): a pool of structured sets with up to 70 elements
	var pool [][]int
	for _, n := range []int{0, 1, 7, 8, 9, 15, 16, 17, 31, 32, 33, 64, 70} {
		for _, f := range []func(i int) int{
			func(i int) int { return i },
			func(i int) int { return 2 * i },
			func(i int) int { return 2*i + 1 },
			func(i int) int { return i*i - 50 },
			func(i int) int { return i + n },
			func(i int) int { return 3*i - n },
		} {
			set := make([]int, n)
			for i := range set {
				set[i] = f(i)
			}
			pool = append(pool, set)
		}
	}
	c.parFor(int64(len(pool)), 1, func(lo, hi int64) {
		for _, a := range pool[lo:hi] {
			for _, b := range pool {
				for _, fn := range []string{"Union", "Intersection", "IntersectionSize", "SetMinus", "XOR", "ContainsSorted", "UnionMethod"} {
					for _, ca := range []int{0, len(b)} {
						if ca != 0 && fn != "UnionMethod" {
							continue
						}
						sc := siCase{Fn: fn, A: a, B: b, CapA: ca}
						c.Check(func() *Failure { return evalSI(sc) })
						c.Nontrivial(1)
					}
				}
			}
			for _, x := range []int{-51, -1, 0, 1, 16, 31, 32, 63, 64, 69, 140, 4711} {
				for _, fn := range []string{"Remove", "ContainsSingle"} {
					sc := siCase{Fn: fn, A: a, X: x}
					c.Check(func() *Failure { return evalSI(sc) })
				}
			}
			for _, n := range []int{0, 16, 33, 64, 100} {
				sc := siCase{Fn: "Complement", A: a, N: n}
				c.Check(func() *Failure { return evalSI(sc) })
			}
			for _, args := range [][]int{{}, {5}, {64, -7, 64}, append(append([]int{}, a...), 1, 3, 1000), {100, 99, 98, 97, 96, 95, 94, 93, 92, 91, 90, 89, 88, 87, 86, 85, 84}} {
				sc := siCase{Fn: "Add", A: a, Args: args, CapA: len(args)}
				c.Check(func() *Failure { return evalSI(sc) })
				sc2 := siCase{Fn: "NewSortedInts", Args: append(append([]int{}, args...), a...)}
				c.Check(func() *Failure { return evalSI(sc2) })
			}
		}
	})
	c.SetCount("large_set_pool", int64(len(pool)))
	// extreme magnitudes (differences that do not fit an int)
	ext := []int{math.MinInt64, math.MinInt64 + 1, -(1 << 62) - 3, -1, 0, 1, 1<<62 + 6, math.MaxInt64 - 1, math.MaxInt64}
	var extSets [][]int
	for bits := 0; bits < 1<<uint(len(ext)); bits++ {
		var set []int
		for i, v := range ext {
			if bits>>uint(i)&1 == 1 {
				set = append(set, v)
			}
		}
		extSets = append(extSets, set)
	}
	c.parFor(int64(len(extSets)), 4, func(lo, hi int64) {
		for _, a := range extSets[lo:hi] {
			for _, b := range extSets {
				for _, fn := range []string{"Union", "Intersection", "IntersectionSize", "SetMinus", "XOR", "ContainsSorted", "UnionMethod"} {
					sc := siCase{Fn: fn, A: a, B: b, CapA: len(b) % 3}
					c.Check(func() *Failure { return evalSI(sc) })
				}
			}
			for _, x := range ext {
				for _, fn := range []string{"Remove", "ContainsSingle"} {
					sc := siCase{Fn: fn, A: a, X: x}
					c.Check(func() *Failure { return evalSI(sc) })
				}
				sc := siCase{Fn: "Add", A: a, Args: []int{x, 0, x}}
				c.Check(func() *Failure { return evalSI(sc) })
			}
		}
	})
	c.SetCount("extreme_magnitude_sets", int64(len(extSets)))
	// receivers that sit in a large, mostly empty backing array (a preallocated buffer, or a short prefix of a long
	// set): capacity 300 / 1024 / 5000 around sets of 0..12 elements, every mutator
	{
		var bigCap int64
		for _, extra := range []int{250, 300, 1024, 5000} {
			for sz := 0; sz <= 12; sz++ {
				a := make([]int, sz)
				for i := range a {
					a[i] = 3*i - 5
				}
				for _, x := range []int{-6, -5, -2, 1, 4, 28, 100} {
					for _, fn := range []string{"Remove", "ContainsSingle"} {
						sc := siCase{Fn: fn, A: a, X: x, CapA: extra}
						c.Check(func() *Failure { return evalSI(sc) })
						bigCap++
					}
				}
				for _, args := range [][]int{{}, {-5}, {0, 2, 0}, {100, -100, 7}} {
					sc := siCase{Fn: "Add", A: a, Args: args, CapA: extra}
					c.Check(func() *Failure { return evalSI(sc) })
					bigCap++
				}
				for _, b := range [][]int{{}, {-5, 1}, {0, 2, 50}, {-9, -8, -7, -6, -5, -4}} {
					sc := siCase{Fn: "UnionMethod", A: a, B: b, CapA: extra}
					c.Check(func() *Failure { return evalSI(sc) })
					bigCap++
				}
				c.Nontrivial(1)
			}
		}
		c.SetCount("large_spare_capacity_cases", bigCap)
	}
	// NewSortedInts / Add on every argument list of length <= 3 over the extreme magnitudes (spans that do not fit an int)
	{
		var extLists [][]int
		stringsOverInts(ext, 3, func(l []int) { extLists = append(extLists, append([]int{}, l...)) })
		c.parFor(int64(len(extLists)), 16, func(lo, hi int64) {
			for _, l := range extLists[lo:hi] {
				sc := siCase{Fn: "NewSortedInts", Args: l}
				c.Check(func() *Failure { return evalSI(sc) })
				sc2 := siCase{Fn: "Add", A: []int{-1, 0, 1}, Args: l, CapA: len(l)}
				c.Check(func() *Failure { return evalSI(sc2) })
				if len(l) >= 2 {
					c.Nontrivial(1)
				}
			}
		})
		c.SetCount("extreme_magnitude_argument_lists", int64(len(extLists)))
	}
	// very unequal sizes (implementations switch to searching the small set in the large one): large structured sets
	// against every 1-, 2- and (thinned) 3-element subset of their value range widened by one
	{
		var larges [][]int
		for _, n := range []int{33, 64, 65, 66, 97, 130} {
			ev := make([]int, n)
			full := make([]int, n)
			gaps := make([]int, n)
			for i := 0; i < n; i++ {
				ev[i] = 2 * i
				full[i] = i - 3
				gaps[i] = i + (i/7)*3
			}
			larges = append(larges, ev, full, gaps)
		}
		var uneq int64
		c.parFor(int64(len(larges)), 1, func(lo, hi int64) {
			for _, L := range larges[lo:hi] {
				lo0, hi0 := L[0]-1, L[len(L)-1]+1
				var smalls [][]int
				for x := lo0; x <= hi0; x++ {
					smalls = append(smalls, []int{x})
					for y := x + 1; y <= hi0; y++ {
						if y-x <= 6 || (x+y)%11 == 0 {
							smalls = append(smalls, []int{x, y})
						}
						if y-x <= 3 {
							for z := y + 1; z <= y+3 && z <= hi0; z++ {
								smalls = append(smalls, []int{x, y, z})
							}
						}
					}
				}
				for _, S := range smalls {
					for _, fn := range []string{"Union", "Intersection", "IntersectionSize", "SetMinus", "XOR", "ContainsSorted", "UnionMethod"} {
						for _, ord := range [][2][]int{{L, S}, {S, L}} {
							sc := siCase{Fn: fn, A: ord[0], B: ord[1], CapA: len(S) % 2}
							c.Check(func() *Failure { return evalSI(sc) })
							c.Nontrivial(1)
						}
					}
				}
				atomic.AddInt64(&uneq, int64(len(smalls)))
			}
		})
		c.SetCount("unequal_size_pairs", uneq)
	}
	// Range with larger spans and steps
	for _, rc := range []rangeCase{{0, 100, 1}, {0, 100, 7}, {100, 0, -7}, {-50, 50, 13}, {50, -50, -13}, {0, 1000, 999}, {0, 1000, 1000}, {0, 1000, 1001}, {1000, 0, -1000}, {1000, 0, -1001}, {7, 8, 1}, {8, 7, -1}} {
		rc := rc
		c.Check(func() *Failure { return evalRange(rc) })
	}
	// variadic argument lists
	var lists [][]int
	var rec func(cur []int, l int)
	rec = func(cur []int, l int) {
		lists = append(lists, append([]int{}, cur...))
		if l == listLen {
			return
		}
		for _, v := range siU {
			rec(append(cur, v), l+1)
		}
	}
	rec(nil, 0)
	c.SetCount("argument_lists", int64(len(lists)))
	c.parFor(int64(len(lists)), 16, func(lo, hi int64) {
		for i := lo; i < hi; i++ {
			l := lists[i]
			sc := siCase{Fn: "NewSortedInts", Args: l}
			c.Check(func() *Failure { return evalSI(sc) })
			for a := 0; a < nSub; a++ {
				for _, ca := range []int{0, 1, len(l)} {
					sc := siCase{Fn: "Add", A: siSubset(a), Args: l, CapA: ca}
					c.Check(func() *Failure { return evalSI(sc) })
					if len(l) >= 2 {
						c.Nontrivial(1)
					}
				}
			}
		}
	})
	// Range
	for s := -rangeSpan; s <= rangeSpan; s++ {
		for e := -rangeSpan; e <= rangeSpan; e++ {
			for st := -stepSpan; st <= stepSpan; st++ {
				rc := rangeCase{s, e, st}
				c.Check(func() *Failure { return evalRange(rc) })
				if s != e && st != 0 {
					c.Nontrivial(1)
				}
			}
		}
	}
	// histories
	ops := siOps()
	b := &BFS[siState, siOp]{Key: siKey, Ops: func(siState) []siOp { return ops }, Apply: siApply, MaxDepth: 4}
	if c.Thorough() {
		b.MaxDepth = 0
	}
	models := map[string]string{}
	b.OnNew = func(k string, s siState) { models[k] = s.model }
	b.OnMerge = func(k string, s siState) *Failure {
		if models[k] != s.model {
			return &Failure{Class: "sortints/history/same-state-different-model", What: k}
		}
		return nil
	}
	b.Run(c, []siState{{s: sortints.NewSortedInts(), model: "[]"}, {s: withCap([]int{0, 2}, 3), model: "[0 2]"}}, func(f *Failure, tr []siOp) {
		f.Kind = "si-history"
		f.Replay = siHist{Ops: tr}
		c.Fail(f)
	})
	c.Evals(b.NTrans)
	c.Note("mutation histories: %d concrete states, %d transitions, depth %d, closed=%v", b.NStates, b.NTrans, b.Depth, b.Closed)
	c.Sample("history", map[string]interface{}{"ops": []siOp{{"add", []int{5, -1}}, {"remove", []int{5}}, {"union", []int{0, 2}}}})
	// ints.Sort
	sortCount := int64(0)
	var seq []int
	var recSeq func(l, max int)
	recSeq = func(l, max int) {
		sc := sortCase{Data: append([]int{}, seq...)}
		c.Check(func() *Failure { return evalSort(sc) })
		sortCount++
		if l == max {
			return
		}
		for v := 0; v < 3; v++ {
			seq = append(seq, v)
			recSeq(l+1, max)
			seq = seq[:len(seq)-1]
		}
	}
	recSeq(0, seqLen)
	for n := 0; n <= permLen; n++ {
		perms := allPerms(n)
		c.parFor(int64(len(perms)), 256, func(lo, hi int64) {
			for i := lo; i < hi; i++ {
				sc := sortCase{Data: perms[i]}
				c.Check(func() *Failure { return evalSort(sc) })
				c.Nontrivial(1)
			}
		})
		sortCount += int64(len(perms))
	}
	fams := adversarialSortInputs(c.Thorough())
	c.parFor(int64(len(fams)), 8, func(lo, hi int64) {
		for i := lo; i < hi; i++ {
			sc := sortCase{Data: fams[i]}
			c.Check(func() *Failure { return evalSort(sc) })
			c.Nontrivial(1)
		}
	})
	sortCount += int64(len(fams))
	c.SetCount("sort_inputs", sortCount)
	c.SetCount("sort_adversarial_inputs", int64(len(fams)))
	c.SetCount("antiquicksort_port_heapsort_fallbacks", int64(antiQuicksortHeapHits))
	c.Sample("binary", siCase{Fn: "XOR", A: []int{-3, 0, 5}, B: []int{-1, 0}})
	c.Sample("add", siCase{Fn: "Add", A: []int{1, 3}, Args: []int{5, 5, -1}})
	c.Sample("range", rangeCase{5, 0, -2})
	c.Assume("SortedInts arguments are sorted and repeat-free (the documented representation invariant)")
}

func adversarialSortInputs(thorough bool) [][]int {
	var out [][]int
	maxLen := 600
	step := 7
	if thorough {
		maxLen = 2100
		step = 1
	}
	for n := 13; n <= maxLen; n += step {
		asc := make([]int, n)
		desc := make([]int, n)
		organ := make([]int, n)
		constant := make([]int, n)
		for i := 0; i < n; i++ {
			asc[i] = i
			desc[i] = n - i
			if i < n/2 {
				organ[i] = i
			} else {
				organ[i] = n - i
			}
			constant[i] = 3
		}
		out = append(out, asc, desc, organ, constant)
		for k := 2; k <= 24; k += 1 + (n % 3) {
			saw := make([]int, n)
			for i := range saw {
				saw[i] = i % k
			}
			out = append(out, saw)
		}
		// median-of-three killer (Musser): 1,k+1,3,k+3,...  then evens
		if n%2 == 0 {
			k := n / 2
			ki := make([]int, n)
			for i := 0; i < k; i++ {
				if i%2 == 0 {
					ki[i] = i + 1
				} else {
					ki[i] = k + i + (1 - k%2)
				}
				ki[k+i] = 2 * (i + 1)
			}
			out = append(out, ki)
		}
		// plateaus and a single outlier
		pl := make([]int, n)
		for i := range pl {
			pl[i] = (i * 5 / n)
		}
		out = append(out, pl)
		ol := make([]int, n)
		ol[n/3] = -1
		ol[2*n/3] = 1
		out = append(out, ol)
	}
	// quicksort-killer inputs generated by McIlroy's adversary against a port of the same algorithm
	for n := 13; n <= maxLen; n += 1 + n/100 {
		for fill := -1; fill < 12; fill++ {
			out = append(out, antiQuicksort(n, fill))
		}
	}
	return out
}

func replayC17(kind string, raw json.RawMessage) *Failure {
	switch kind {
	case "si":
		var sc siCase
		json.Unmarshal(raw, &sc)
		return evalSI(sc)
	case "range":
		var rc rangeCase
		json.Unmarshal(raw, &rc)
		return evalRange(rc)
	case "sort":
		var sc sortCase
		json.Unmarshal(raw, &sc)
		return evalSort(sc)
	case "si-history":
		var h siHist
		json.Unmarshal(raw, &h)
		for _, init := range []siState{{s: sortints.NewSortedInts(), model: "[]"}, {s: withCap([]int{0, 2}, 3), model: "[0 2]"}} {
			st := init
			for _, op := range h.Ops {
				ns, f := siApply(st, op)
				if f != nil {
					return f
				}
				st = ns
			}
		}
		return nil
	}
	return &Failure{Class: "replay/unsupported-kind", What: kind}
}

func init() { register("C17", runC17, replayC17) }
