package main

// Histories on the *view* representations (Complement, InducedSubgraph view): the views are documented to be
// live ("reflect the current state of g"), so the pattern query - edit the underlying graph - query again must
// give the answers of the edited graph. Used by C06 (observers), C09, C10 (invariants) and C11 (IsPlanar).

import (
	"fmt"

	"github.com/Tom-Johnston/mamba/graph"
)

type viewCase struct {
	N     int      `json:"n"`
	Mask  uint64   `json:"mask"`
	Rep   string   `json:"base_rep"`
	View  string   `json:"view"` // complement | induced
	V     []int    `json:"v,omitempty"`
	Edits [][3]int `json:"edits"` // {op, i, j}: op 0 = RemoveEdge, 1 = AddEdge
	What  string   `json:"observe"`
}

// viewEditSequences: every single toggle and every swap (remove one present edge, add one absent edge: N and M unchanged).
func viewEditSequences(n int, mask uint64) [][][3]int {
	var out [][][3]int
	m := mgFromMask(n, mask)
	var present, absent [][2]int
	for j := 1; j < n; j++ {
		for i := 0; i < j; i++ {
			if m.has(i, j) {
				present = append(present, [2]int{i, j})
			} else {
				absent = append(absent, [2]int{i, j})
			}
		}
	}
	for _, e := range present {
		out = append(out, [][3]int{{0, e[0], e[1]}})
	}
	for _, e := range absent {
		out = append(out, [][3]int{{1, e[0], e[1]}})
	}
	for _, e := range present {
		for _, f := range absent {
			out = append(out, [][3]int{{0, e[0], e[1]}, {1, f[0], f[1]}})
		}
	}
	return out
}

// evalViewHistory: observe(view) before the edits (to warm any cache), apply the edits to the base, then
// observe(view) must equal observe(a fresh dense graph holding what the view should now show).
func evalViewHistory(vc viewCase, observe func(g graph.Graph) string) *Failure {
	mk := func(cl, what string) *Failure {
		return &Failure{Class: "view-history/" + vc.View + "/" + vc.What + "/" + cl, What: fmt.Sprintf("base %s %s, view %s %v, edits %v: %s", vc.Rep, g6(vc.N, vc.Mask), vc.View, vc.V, vc.Edits, what), Kind: "view-history", Replay: vc}
	}
	model := mgFromMask(vc.N, vc.Mask)
	var base graph.EditableGraph
	if vc.Rep == "sparse" {
		base = sparseFromMG(model)
	} else {
		base = denseFromMG(model)
	}
	var view graph.Graph
	expected := func() *MG {
		if vc.View == "complement" {
			full := uint64(1)<<uint(edgeCount(vc.N)) - 1
			return mgFromMask(vc.N, full&^model.mask())
		}
		return model.induced(vc.V)
	}
	var got1, got2 string
	msg, p := try(func() {
		if vc.View == "complement" {
			view = graph.Complement(base)
		} else {
			view = graph.InducedSubgraph(base, append([]int{}, vc.V...))
		}
		got1 = observe(view)
	})
	if p {
		return mk("panic", msg)
	}
	if want := observe(denseFromMG(expected())); got1 != want {
		return mk("fresh-view-differs", fmt.Sprintf("got %s want %s", got1, want))
	}
	for _, e := range vc.Edits {
		if e[0] == 0 {
			base.RemoveEdge(e[1], e[2])
			model.set(e[1], e[2], false)
		} else {
			base.AddEdge(e[1], e[2])
			model.set(e[1], e[2], true)
		}
	}
	if msg, p := try(func() { got2 = observe(view) }); p {
		return mk("panic-after-edit", msg)
	}
	if want := observe(denseFromMG(expected())); got2 != want {
		return mk("stale-after-editing-the-underlying-graph", fmt.Sprintf("the view answers %s, the edited graph gives %s", got2, want))
	}
	return nil
}

// viewHistoryCases enumerates the cases for graphs on n vertices (every base graph when n <= 4, a third when n = 5).
func viewHistoryCases(n int, what string) []viewCase {
	var out []viewCase
	var Vs [][]int
	id := make([]int, n)
	rev := make([]int, n)
	for i := range id {
		id[i] = i
		rev[i] = n - 1 - i
	}
	Vs = append(Vs, id, rev)
	if n >= 3 {
		Vs = append(Vs, []int{n - 1, 0, 1})
	}
	for mask := uint64(0); mask < 1<<uint(edgeCount(n)); mask++ {
		if n >= 5 && mask%3 != 1 {
			continue
		}
		for ei, edits := range viewEditSequences(n, mask) {
			rep := "dense"
			if ei%2 == 1 {
				rep = "sparse"
			}
			out = append(out, viewCase{N: n, Mask: mask, Rep: rep, View: "complement", Edits: edits, What: what})
			for _, V := range Vs {
				out = append(out, viewCase{N: n, Mask: mask, Rep: rep, View: "induced", V: V, Edits: edits, What: what})
			}
		}
	}
	return out
}

func observeW(g graph.Graph) string {
	if w := selfConsistent(g); w != "" {
		return "MALFORMED: " + w
	}
	return fmt.Sprint(mgFromGraph(g), g.M(), g.Degrees())
}
