package main

// C02: orbits and generators returned with the canonical form describe exactly Aut(g);
// storage reuse across graphs of different sizes; vertex classes.

import (
	"encoding/json"
	"fmt"
	"sort"

	"github.com/Tom-Johnston/mamba/disjoint"
	"github.com/Tom-Johnston/mamba/graph"
)

// autResult is the semantic content of one CanonicalIsomorph* result.
type autResult struct {
	perm   []int
	canon  uint64
	orbits []int   // orbits[v] = least vertex of the returned cell containing v
	gens   [][]int // copies of the returned generators
}

func orbitLabels(ds disjoint.Set, n int) ([]int, string) {
	if n == 0 {
		return []int{}, ""
	}
	if len(ds) != n {
		return nil, fmt.Sprintf("orbit set has length %d, want %d", len(ds), n)
	}
	cp := disjoint.Set(append([]int(nil), ds...))
	lab := make([]int, n)
	rootMin := map[int]int{}
	roots := make([]int, n)
	for v := 0; v < n; v++ {
		var r int
		if msg, p := try(func() { r = cp.Find(v) }); p {
			return nil, "orbit set is not a valid disjoint.Set: " + msg
		}
		roots[v] = r
		if _, ok := rootMin[r]; !ok {
			rootMin[r] = v
		}
	}
	for v := 0; v < n; v++ {
		lab[v] = rootMin[roots[v]]
	}
	return lab, ""
}

func copyGens(gens [][]int) [][]int {
	out := make([][]int, len(gens))
	for i, g := range gens {
		out[i] = append([]int(nil), g...)
	}
	return out
}

// groupClosure generates the group from gens (as permutations v -> g[v]) up to limit elements.
// Returns the number of elements (<= limit+1) and the orbit labels of the generated group.
func groupClosure(n int, gens [][]int, limit int) (int, []int) {
	lab := make([]int, n)
	for i := range lab {
		lab[i] = i
	}
	var find func(x int) int
	find = func(x int) int {
		for lab[x] != x {
			lab[x] = lab[lab[x]]
			x = lab[x]
		}
		return x
	}
	for _, g := range gens {
		for v := 0; v < n; v++ {
			a, b := find(v), find(g[v])
			if a != b {
				if a < b {
					lab[b] = a
				} else {
					lab[a] = b
				}
			}
		}
	}
	out := make([]int, n)
	for v := range out {
		out[v] = find(v)
	}
	if n == 0 {
		return 1, out
	}
	key := func(p []int) string {
		b := make([]byte, len(p))
		for i, v := range p {
			b[i] = byte(v)
		}
		return string(b)
	}
	id := make([]int, n)
	for i := range id {
		id[i] = i
	}
	seen := map[string]bool{key(id): true}
	queue := [][]int{id}
	for len(queue) > 0 && len(seen) <= limit {
		p := queue[0]
		queue = queue[1:]
		for _, g := range gens {
			q := make([]int, n)
			for v := 0; v < n; v++ {
				q[v] = g[p[v]]
			}
			k := key(q)
			if !seen[k] {
				seen[k] = true
				queue = append(queue, q)
			}
		}
	}
	return len(seen), out
}

// classVec: cls[v] = index of the vertex class containing v (nil = no classes).
func classesFromVec(cls []int, reverseWithin bool) [][]int {
	if cls == nil {
		return nil
	}
	k := 0
	for _, c := range cls {
		if c+1 > k {
			k = c + 1
		}
	}
	out := make([][]int, k)
	for i := range out {
		out[i] = []int{}
	}
	for v, c := range cls {
		out[c] = append(out[c], v)
	}
	if reverseWithin {
		for _, l := range out {
			for i, j := 0, len(l)-1; i < j; i, j = i+1, j-1 {
				l[i], l[j] = l[j], l[i]
			}
		}
	}
	return out
}

type autCase struct {
	N       int    `json:"n"`
	Mask    uint64 `json:"mask"`
	G6      string `json:"graph6"`
	Classes []int  `json:"class_of_vertex,omitempty"`
	Rev     bool   `json:"classes_listed_descending,omitempty"`
	Perm    []int  `json:"relabelling,omitempty"`
	AutSize int    `json:"aut_order,omitempty"`
}

func runFull(n int, mask uint64, cls []int, rev bool) (*autResult, string, string) {
	g := denseFromMask(n, mask)
	var perm []int
	var ds disjoint.Set
	var gens [][]int
	if msg, p := try(func() { perm, ds, gens = graph.CanonicalIsomorphFull(g, classesFromVec(cls, rev)) }); p {
		return nil, "panic", "CanonicalIsomorphFull panics: " + msg
	}
	return digestResult(n, mask, perm, ds, gens)
}

func digestResult(n int, mask uint64, perm []int, ds disjoint.Set, gens [][]int) (*autResult, string, string) {
	if !isPerm(perm, n) {
		return nil, "not-a-permutation", fmt.Sprintf("permutation %v", perm)
	}
	lab, e := orbitLabels(ds, n)
	if e != "" {
		return nil, "orbits-malformed", e
	}
	for _, g := range gens {
		if !isPerm(g, n) {
			return nil, "generator-not-a-permutation", fmt.Sprintf("generator %v", g)
		}
	}
	return &autResult{perm: append([]int(nil), perm...), canon: relabelInduced(n, mask, perm), orbits: lab, gens: copyGens(gens)}, "", ""
}

// bruteAut lists all automorphisms of the labelled graph that preserve cls (nil = all).
func bruteAut(n int, mask uint64, cls []int, perms [][]int) [][]int {
	var out [][]int
	for _, p := range perms {
		ok := true
		if cls != nil {
			for v := 0; v < n; v++ {
				if cls[p[v]] != cls[v] {
					ok = false
					break
				}
			}
		}
		if ok && permuteMask(n, mask, p) == mask {
			out = append(out, p)
		}
	}
	return out
}

func orbitsOf(n int, group [][]int) []int {
	lab := make([]int, n)
	for i := range lab {
		lab[i] = i
	}
	for _, p := range group {
		for v := 0; v < n; v++ {
			a, b := lab[v], lab[p[v]]
			if a == b {
				continue
			}
			lo, hi := a, b
			if lo > hi {
				lo, hi = hi, lo
			}
			for i := range lab {
				if lab[i] == hi {
					lab[i] = lo
				}
			}
		}
	}
	return lab
}

// checkAut evaluates one (graph, classes) pair against the brute-force automorphism group.
func checkAut(ac autCase, perms [][]int) *Failure {
	n, mask, cls := ac.N, ac.Mask, ac.Classes
	pre := "canonical-aut/"
	if cls != nil {
		pre = "canonical-aut/vertex-classes/"
	}
	mk := func(cl, what string) *Failure {
		return &Failure{Class: pre + cl, What: fmt.Sprintf("n=%d %s classes=%v: %s", n, g6(n, mask), cls, what), Kind: "aut", Replay: ac}
	}
	r, cl, what := runFull(n, mask, cls, ac.Rev)
	if cl != "" {
		return mk(cl, what)
	}
	aut := bruteAut(n, mask, cls, perms)
	want := orbitsOf(n, aut)
	if !intsEq(r.orbits, want) {
		return mk("orbits", fmt.Sprintf("returned orbit partition %v, automorphism group (order %d) has orbits %v", r.orbits, len(aut), want))
	}
	for _, g := range r.gens {
		if permuteMask(n, mask, g) != mask {
			return mk("generator-not-automorphism", fmt.Sprintf("generator %v is not an automorphism", g))
		}
		if cls != nil {
			for v := 0; v < n; v++ {
				if cls[g[v]] != cls[v] {
					return mk("generator-not-class-preserving", fmt.Sprintf("generator %v moves vertex %d to another class", g, v))
				}
			}
		}
	}
	size, _ := groupClosure(n, r.gens, len(aut))
	if size != len(aut) {
		return mk("generators-do-not-generate-aut", fmt.Sprintf("generators %v generate %d elements, |Aut| = %d", r.gens, size, len(aut)))
	}
	return nil
}

// checkClassInvariance: canonical graph of (g, cls) and of (pi g, pi cls) must be identical.
func checkClassInvariance(ac autCase) *Failure {
	n := ac.N
	r1, cl, what := runFull(n, ac.Mask, ac.Classes, false)
	mk := func(cl, what string) *Failure {
		return &Failure{Class: "canonical-aut/vertex-classes/" + cl, What: fmt.Sprintf("n=%d %s classes=%v relabelling %v: %s", n, g6(n, ac.Mask), ac.Classes, ac.Perm, what), Kind: "class-invariance", Replay: ac}
	}
	if cl != "" {
		return mk(cl, what)
	}
	img := permuteMask(n, ac.Mask, ac.Perm)
	icls := make([]int, n)
	for v := 0; v < n; v++ {
		icls[ac.Perm[v]] = ac.Classes[v]
	}
	r2, cl, what := runFull(n, img, icls, ac.Rev)
	if cl != "" {
		return mk(cl, "relabelled: "+what)
	}
	if r1.canon != r2.canon {
		return mk("not-invariant-under-relabelling", fmt.Sprintf("canonical graphs differ: %s vs %s", g6(n, r1.canon), g6(n, r2.canon)))
	}
	for i := 0; i < n; i++ {
		if ac.Classes[r1.perm[i]] != icls[r2.perm[i]] {
			return mk("not-invariant-under-relabelling", "canonical class vectors differ")
		}
	}
	return nil
}

// orderedPartitions enumerates all surjective class vectors cls: [n] -> [k], all k (ordered set partitions).
func orderedPartitions(n int) [][]int {
	var out [][]int
	cls := make([]int, n)
	var rec func(i int)
	rec = func(i int) {
		if i == n {
			k := 0
			used := [8]bool{}
			for _, c := range cls {
				used[c] = true
				if c+1 > k {
					k = c + 1
				}
			}
			for c := 0; c < k; c++ {
				if !used[c] {
					return
				}
			}
			out = append(out, append([]int(nil), cls...))
			return
		}
		for c := 0; c < n; c++ {
			cls[i] = c
			rec(i + 1)
		}
	}
	if n == 0 {
		return [][]int{{}}
	}
	rec(0)
	return out
}

func c02NilClasses(c *Ctx, maxN int) {
	fact := 1
	for n := 0; n <= maxN; n++ {
		if n > 0 {
			fact *= n
		}
		class, reps := orbitSweep(n)
		size := make([]int, len(reps))
		for _, id := range class {
			size[id]++
		}
		total := int64(len(class))
		var perms [][]int
		if n <= 6 {
			perms = allPerms(n)
		}
		c.parFor(total, 512, func(lo, hi int64) {
			for m := lo; m < hi; m++ {
				mask := uint64(m)
				autOrder := fact / size[class[m]]
				if autOrder > 1 {
					c.Nontrivial(1)
				}
				ac := autCase{N: n, Mask: mask, G6: g6(n, mask), AutSize: autOrder}
				if perms != nil {
					c.Check(func() *Failure { return checkAut(ac, perms) })
				} else {
					c.Check(func() *Failure { return checkAutBySize(ac) })
				}
			}
		})
		c.Count(fmt.Sprintf("nil_classes_labelled_graphs_n%d", n), total)
	}
}

// checkAutBySize: |Aut(g)| known from the orbit sweep (orbit-stabiliser); generators must be automorphisms
// generating a group of exactly that order, and the returned orbits must be that group's orbits.
func checkAutBySize(ac autCase) *Failure {
	n, mask := ac.N, ac.Mask
	mk := func(cl, what string) *Failure {
		return &Failure{Class: "canonical-aut/" + cl, What: fmt.Sprintf("n=%d %s: %s", n, g6(n, mask), what), Kind: "aut-size", Replay: ac}
	}
	r, cl, what := runFull(n, mask, nil, false)
	if cl != "" {
		return mk(cl, what)
	}
	for _, g := range r.gens {
		if permuteMask(n, mask, g) != mask {
			return mk("generator-not-automorphism", fmt.Sprintf("generator %v", g))
		}
	}
	size, orb := groupClosure(n, r.gens, ac.AutSize)
	if size != ac.AutSize {
		return mk("generators-do-not-generate-aut", fmt.Sprintf("generators %v generate %d elements, |Aut| = %d", r.gens, size, ac.AutSize))
	}
	if !intsEq(orb, r.orbits) {
		return mk("orbits", fmt.Sprintf("returned orbits %v, group orbits %v", r.orbits, orb))
	}
	return nil
}

func c02Classes(c *Ctx, maxN int) {
	for n := 1; n <= maxN; n++ {
		perms := allPerms(n)
		parts := orderedPartitions(n)
		total := int64(1) << uint(edgeCount(n))
		sig, tau := genSigma(n), genTau(n)
		c.parFor(total, 16, func(lo, hi int64) {
			for m := lo; m < hi; m++ {
				if c.Expired() {
					return
				}
				for pi, cls := range parts {
					if len(cls) > 0 && maxInt(cls) == 0 && n > 1 {
						// a single class is the nil case; still run it (the library treats it separately)
					}
					ac := autCase{N: n, Mask: uint64(m), G6: g6(n, uint64(m)), Classes: cls, Rev: pi%2 == 1}
					ok := c.Check(func() *Failure { return checkAut(ac, perms) })
					if !ok {
						continue
					}
					c.Nontrivial(1)
					for _, p := range [][]int{sig, tau} {
						ac2 := ac
						ac2.Perm = p
						c.Check(func() *Failure { return checkClassInvariance(ac2) })
					}
				}
			}
		})
		if c.Expired() {
			c.CapHit("vertex-class phase deadline")
			return
		}
		c.Count(fmt.Sprintf("class_pairs_n%d", n), total*int64(len(parts)))
	}
	c.Sample("vertex-classes", autCase{N: 4, Mask: 0x2d, G6: g6(4, 0x2d), Classes: []int{1, 0, 0, 1}})
}

func maxInt(a []int) int {
	m := a[0]
	for _, v := range a {
		if v > m {
			m = v
		}
	}
	return m
}

// ---- storage reuse histories ----

type reuseStep struct {
	N      int    `json:"n"`
	Mask   uint64 `json:"mask"`
	Cls    []int  `json:"class_of_vertex,omitempty"`
	Viable bool   `json:"check_viability,omitempty"`
	Bits   uint   `json:"viable_bits,omitempty"`
}

type reuseCase struct {
	CapN  int         `json:"capacity_n"`
	Steps []reuseStep `json:"steps"`
}

func neighboursOf(n int, mask uint64) [][]int {
	m := mgFromMask(n, mask)
	nb := make([][]int, n)
	for i := range nb {
		nb[i] = m.nbrs(i)
	}
	return nb
}

func checkReuse(rc reuseCase) *Failure {
	N := rc.CapN
	M := edgeCount(N)
	mk := func(cl, what string) *Failure {
		return &Failure{Class: "canonical-reuse/" + cl, What: fmt.Sprintf("capacity %d, sequence %s: %s", N, js(rc.Steps), what), Kind: "reuse", Replay: rc}
	}
	var storage *graph.CanonicalStorage
	var op *graph.CanonicalOrderedPartition
	if msg, p := try(func() { storage = graph.NewStorage(N, M); op = graph.NewOrderedPartition(N, M, nil) }); p {
		return mk("panic", "allocation panics: "+msg)
	}
	options := new(graph.CanonicalOptions)
	for si, st := range rc.Steps {
		n, mask := st.N, st.Mask
		m := mgFromMask(n, mask).edges()
		nb := neighboursOf(n, mask)
		var perm []int
		var ds disjoint.Set
		var gens [][]int
		options.CheckViability = st.Viable
		options.ViableBits = st.Bits
		if msg, p := try(func() {
			op.Reset(n, m, classesFromVec(st.Cls, false))
			perm, ds, gens = graph.CanonicalIsomorphAllocated(n, m, nb, op, storage, options)
		}); p {
			return mk("panic", fmt.Sprintf("step %d panics: %s", si, msg))
		}
		if st.Viable && perm == nil && ds == nil && gens == nil {
			continue // early exit allowed by CheckViability; its verdict is C03's concern
		}
		got, cl, what := digestResult(n, mask, perm, ds, gens)
		if cl != "" {
			return mk(cl, fmt.Sprintf("step %d: %s", si, what))
		}
		fresh, cl, what := runFull(n, mask, st.Cls, false)
		if cl != "" {
			return nil // fresh call itself broken: reported by the input-exhaustive phase
		}
		if !intsEq(got.perm, fresh.perm) {
			return mk("permutation-differs-from-fresh-call", fmt.Sprintf("step %d (%s): reused %v, fresh %v", si, g6(n, mask), got.perm, fresh.perm))
		}
		if !intsEq(got.orbits, fresh.orbits) {
			return mk("orbits-differ-from-fresh-call", fmt.Sprintf("step %d (%s): reused %v, fresh %v", si, g6(n, mask), got.orbits, fresh.orbits))
		}
		for _, g := range got.gens {
			if permuteMask(n, mask, g) != mask {
				return mk("generator-not-automorphism", fmt.Sprintf("step %d (%s): generator %v", si, g6(n, mask), g))
			}
		}
		s1, _ := groupClosure(n, got.gens, 5040)
		s2, _ := groupClosure(n, fresh.gens, 5040)
		if s1 != s2 {
			return mk("generators-differ-from-fresh-call", fmt.Sprintf("step %d (%s): reused generators %v generate %d elements, fresh %v generate %d", si, g6(n, mask), got.gens, s1, fresh.gens, s2))
		}
	}
	return nil
}

func c02Reuse(c *Ctx, capN int, maxGraphN int, length int, withViable bool, clsN int) {
	var alphabet []reuseStep
	for n := 0; n <= maxGraphN; n++ {
		for m := uint64(0); m < 1<<uint(edgeCount(n)); m++ {
			alphabet = append(alphabet, reuseStep{N: n, Mask: m})
		}
	}
	for n := 1; n <= clsN; n++ {
		for _, cls := range orderedPartitions(n) {
			if maxInt(cls) == 0 {
				continue
			}
			for m := uint64(0); m < 1<<uint(edgeCount(n)); m++ {
				alphabet = append(alphabet, reuseStep{N: n, Mask: m, Cls: cls})
			}
		}
	}
	plain := len(alphabet)
	if withViable {
		// the viability option as used by the search: last vertex against every earlier vertex set of size 1 and all
		for n := 2; n <= maxGraphN; n++ {
			for m := uint64(0); m < 1<<uint(edgeCount(n)); m++ {
				alphabet = append(alphabet, reuseStep{N: n, Mask: m, Viable: true, Bits: 1})
				alphabet = append(alphabet, reuseStep{N: n, Mask: m, Viable: true, Bits: uint(1)<<uint(n-1) - 1})
			}
		}
	}
	A := int64(len(alphabet))
	total := int64(1)
	for i := 0; i < length; i++ {
		total *= A
	}
	c.parFor(total, 256, func(lo, hi int64) {
		for idx := lo; idx < hi; idx++ {
			x := idx
			steps := make([]reuseStep, length)
			for i := length - 1; i >= 0; i-- {
				steps[i] = alphabet[x%A]
				x /= A
			}
			// the last step must be a plain call (it is the one compared with a fresh call)
			if steps[length-1].Viable {
				continue
			}
			rc := reuseCase{CapN: capN, Steps: steps}
			c.Check(func() *Failure { return checkReuse(rc) })
			c.Trans(int64(length))
			sizes := map[int]bool{}
			for _, s := range steps {
				sizes[s.N] = true
			}
			if len(sizes) > 1 {
				c.Nontrivial(1)
			}
		}
	})
	c.Count(fmt.Sprintf("reuse_sequences_cap%d_len%d_alphabet%d(plain %d)", capN, length, len(alphabet), plain), total)
	if length >= 2 {
		c.Sample("reuse-sequence", reuseCase{CapN: capN, Steps: []reuseStep{alphabet[len(alphabet)/2], alphabet[3%len(alphabet)]}})
	}
}

// checkAutConsistency (no oracle for |Aut| needed): every generator is an automorphism, the returned orbits
// are the orbits of the generated group; returns the order of the generated group.
func checkAutConsistency(ac autCase) (int, *Failure) {
	n, mask := ac.N, ac.Mask
	mk := func(cl, what string) *Failure {
		return &Failure{Class: "canonical-aut/" + cl, What: fmt.Sprintf("n=%d %s: %s", n, g6(n, mask), what), Kind: "aut-consistency", Replay: ac}
	}
	r, cl, what := runFull(n, mask, nil, false)
	if cl != "" {
		return 0, mk(cl, what)
	}
	for _, g := range r.gens {
		if permuteMask(n, mask, g) != mask {
			return 0, mk("generator-not-automorphism", fmt.Sprintf("generator %v", g))
		}
	}
	size, orb := groupClosure(n, r.gens, 50000)
	if !intsEq(orb, r.orbits) {
		return 0, mk("orbits", fmt.Sprintf("returned orbits %v, orbits of the group generated by %v are %v", r.orbits, r.gens, orb))
	}
	if ac.AutSize > 0 && size != ac.AutSize {
		return 0, mk("generators-do-not-generate-aut", fmt.Sprintf("generators %v generate %d elements, |Aut| = %d", r.gens, size, ac.AutSize))
	}
	return size, nil
}

// c02Reps: every isomorphism class on 8 vertices (representatives from the library's search, as input generator)
// under all transpositions, reversal, rotation and pseudo-random relabellings; the group order must be the same
// for every relabelling, and equal to the brute-force |Aut| (thorough).
func c02Reps(c *Ctx) {
	n := 8
	reps := classReps(n)
	ps := relabelBattery(n, true, 6)
	var perms [][]int
	if c.Thorough() {
		perms = allPerms(n)
	}
	c.parFor(int64(len(reps)), 16, func(lo, hi int64) {
		for _, m := range reps[lo:hi] {
			want := 0
			if perms != nil {
				want = len(bruteAut(n, m, nil, perms))
			}
			ac := autCase{N: n, Mask: m, G6: g6(n, m), AutSize: want}
			size, f := checkAutConsistency(ac)
			c.Evals(1)
			if f != nil {
				c.Check(func() *Failure { _, f := checkAutConsistency(ac); return f })
				continue
			}
			for _, p := range ps {
				ac2 := autCase{N: n, Mask: permuteMask(n, m, p), AutSize: size}
				ac2.G6 = g6(n, ac2.Mask)
				c.Evals(1)
				if _, f := checkAutConsistency(ac2); f != nil {
					c.Check(func() *Failure { _, f := checkAutConsistency(ac2); return f })
				}
			}
			if size > 1 {
				c.Nontrivial(int64(len(ps)) + 1)
			}
		}
	})
	c.SetCount("class_representatives_n8", int64(len(reps)))
	c.SetCount("relabellings_per_representative_n8", int64(len(ps)))
}

func runC02(c *Ctx) {
	c.Level = "exploration"
	c.Rule = "every labelled graph on n vertices through CanonicalIsomorphFull(g, nil): generators are automorphisms, generate a group of order |Aut(g)| (= n!/|isomorphism class|, from an explicit orbit sweep; brute force for n <= 6) whose orbits are the returned partition; every isomorphism class on 8 vertices under 36 relabellings (generators are automorphisms, orbits are those of the generated group, group order constant over relabellings and equal to brute force in thorough); trees with 13-40 vertices (80 thorough) against the AHU orbit partition and |Aut| product formula; every sequence of graphs through one reused storage/partition pair compared with fresh calls; every (graph, ordered vertex-class partition) pair against brute-force class-preserving automorphisms and invariance under the generators of S_n; non-trivial = |Aut| > 1, reuse sequence with differing sizes, or class pair"
	maxNil, maxCls := 6, 5
	if c.Thorough() {
		maxNil, maxCls = 7, 6
	}
	c.Bound("nil_classes_n_max", maxNil)
	c.Bound("vertex_classes_n_max", maxCls)
	c02NilClasses(c, maxNil)
	c02Reuse(c, 4, 4, 2, true, 3)
	c02Reuse(c, 5, 3, 3, true, 2)
	c02Reuse(c, 6, 4, 1, false, 4)
	if c.Thorough() {
		c02Reuse(c, 5, 5, 2, false, 3)
		c02Reuse(c, 4, 4, 3, false, 2)
	}
	c02Reps(c)
	c02Trees(c)
	c02Families(c)
	c02Classes(c, maxCls)
	c.Sample("nil-classes", autCase{N: 6, Mask: 0x4c31, G6: g6(6, 0x4c31)})
	c.Assume("vertex classes are passed as lists covering every vertex exactly once; class lists in ascending or descending order")
}

func replayC02(kind string, raw json.RawMessage) *Failure {
	switch kind {
	case "family-aut":
		var fc famCase
		if err := json.Unmarshal(raw, &fc); err != nil {
			return &Failure{Class: "replay/bad-file", What: err.Error()}
		}
		return evalFamAut(fc)
	case "aut", "aut-size":
		var ac autCase
		if err := json.Unmarshal(raw, &ac); err != nil {
			return &Failure{Class: "replay/bad-file", What: err.Error()}
		}
		if ac.N <= 6 {
			return checkAut(ac, allPerms(ac.N))
		}
		return checkAutBySize(ac)
	case "tree-aut":
		var tc treeCase
		json.Unmarshal(raw, &tc)
		return evalTreeAut(tc)
	case "aut-consistency":
		var ac autCase
		if err := json.Unmarshal(raw, &ac); err != nil {
			return &Failure{Class: "replay/bad-file", What: err.Error()}
		}
		_, f := checkAutConsistency(ac)
		return f
	case "class-invariance":
		var ac autCase
		if err := json.Unmarshal(raw, &ac); err != nil {
			return &Failure{Class: "replay/bad-file", What: err.Error()}
		}
		return checkClassInvariance(ac)
	case "reuse":
		var rc reuseCase
		if err := json.Unmarshal(raw, &rc); err != nil {
			return &Failure{Class: "replay/bad-file", What: err.Error()}
		}
		return checkReuse(rc)
	}
	return &Failure{Class: "replay/unsupported-kind", What: kind}
}

func init() { register("C02", runC02, replayC02) }

var _ = sort.Ints
