package main

// C11 part B: explicit-state search over truth-preserving operations on graphs with up to 14 vertices.

import (
	"fmt"
	"sort"
	"sync"

	"github.com/Tom-Johnston/mamba/graph"
)

const c11MaxN = 14

type pState struct {
	g      *BGr
	planar bool
	trace  []string
}

func (g *BGr) clone() *BGr { return &BGr{n: g.n, adj: append([]uint64(nil), g.adj...)} }

func (g *BGr) del(i, j int) {
	g.adj[i] &^= 1 << uint(j)
	g.adj[j] &^= 1 << uint(i)
}

func (g *BGr) addVertex() int {
	g.adj = append(g.adj, 0)
	g.n++
	return g.n - 1
}

func (g *BGr) stateKey() string { return fmt.Sprint(g.n, ":") + g.key() }

// ---- seeds ----

type triang struct {
	g     *BGr
	faces [][3]int
}

func (t *triang) clone() *triang {
	return &triang{g: t.g.clone(), faces: append([][3]int(nil), t.faces...)}
}

func sort3(a, b, c int) [3]int {
	x := []int{a, b, c}
	sort.Ints(x)
	return [3]int{x[0], x[1], x[2]}
}

func (t *triang) expandFace(fi int) *triang {
	n := t.clone()
	f := n.faces[fi]
	v := n.g.addVertex()
	n.g.add(v, f[0])
	n.g.add(v, f[1])
	n.g.add(v, f[2])
	n.faces[fi] = sort3(f[0], f[1], v)
	n.faces = append(n.faces, sort3(f[0], f[2], v), sort3(f[1], f[2], v))
	return n
}

// expandEdge deletes the edge ab and puts a new degree-4 vertex into the resulting quadrilateral.
func (t *triang) expandEdge(a, b int) *triang {
	var fs []int
	for i, f := range t.faces {
		has := func(x int) bool { return f[0] == x || f[1] == x || f[2] == x }
		if has(a) && has(b) {
			fs = append(fs, i)
		}
	}
	if len(fs) != 2 {
		return nil
	}
	third := func(f [3]int) int {
		for _, x := range f {
			if x != a && x != b {
				return x
			}
		}
		return -1
	}
	c, d := third(t.faces[fs[0]]), third(t.faces[fs[1]])
	if c == d {
		return nil
	}
	n := t.clone()
	n.g.del(a, b)
	v := n.g.addVertex()
	for _, x := range []int{a, b, c, d} {
		n.g.add(v, x)
	}
	n.faces[fs[0]] = sort3(a, c, v)
	n.faces[fs[1]] = sort3(c, b, v)
	n.faces = append(n.faces, sort3(b, d, v), sort3(d, a, v))
	return n
}

func (t *triang) valid() bool {
	// Euler: a triangulation on n vertices has 3n-6 edges and 2n-4 faces
	return len(t.g.edgeList()) == 3*t.g.n-6 && len(t.faces) == 2*t.g.n-4
}

func degSeqKey(g *BGr) string {
	d := make([]int, g.n)
	for i, r := range g.adj {
		for x := r; x != 0; x &= x - 1 {
			d[i]++
		}
	}
	// refine with sorted neighbour-degree multisets
	keys := make([]string, g.n)
	for i := 0; i < g.n; i++ {
		var nd []int
		for j := 0; j < g.n; j++ {
			if g.has(i, j) {
				nd = append(nd, d[j])
			}
		}
		sort.Ints(nd)
		keys[i] = fmt.Sprint(d[i], nd)
	}
	sort.Strings(keys)
	return fmt.Sprint(keys)
}

// triangulations returns all triangulations reachable from K4 by the two expansions, as labelled edge sets,
// complete up to fullN; beyond fullN (to maxN) only one representative per refined degree sequence is expanded.
func triangulations(fullN, maxN int) map[int][]*triang {
	k4 := &triang{g: completeB(4), faces: [][3]int{{0, 1, 2}, {0, 1, 3}, {0, 2, 3}, {1, 2, 3}}}
	levels := map[int][]*triang{4: {k4}}
	for n := 4; n < maxN; n++ {
		seen := map[string]bool{}
		var next []*triang
		src := levels[n]
		if n >= fullN {
			reps := map[string]bool{}
			var r []*triang
			for _, t := range src {
				k := degSeqKey(t.g)
				if !reps[k] {
					reps[k] = true
					r = append(r, t)
				}
			}
			src = r
		}
		for _, t := range src {
			var cands []*triang
			for fi := range t.faces {
				cands = append(cands, t.expandFace(fi))
			}
			for _, e := range t.g.edgeList() {
				if x := t.expandEdge(e[0], e[1]); x != nil {
					cands = append(cands, x)
				}
			}
			for _, x := range cands {
				if !x.valid() {
					continue
				}
				k := x.g.stateKey()
				if !seen[k] {
					seen[k] = true
					next = append(next, x)
				}
			}
		}
		levels[n+1] = next
	}
	return levels
}

func namedPlanarSeeds() map[string]*BGr {
	m := map[string]*BGr{}
	for k := 4; k <= 9; k++ {
		w := newBGr(k + 1)
		for i := 0; i < k; i++ {
			w.add(i, (i+1)%k)
			w.add(i, k)
		}
		m[fmt.Sprintf("wheel%d", k)] = w
	}
	for k := 3; k <= 6; k++ {
		m[fmt.Sprintf("prism%d", k)] = cartesian(circulant(k, 1), completeB(2))
		a := newBGr(2 * k)
		for i := 0; i < k; i++ {
			a.add(i, (i+1)%k)
			a.add(k+i, k+(i+1)%k)
			a.add(i, k+i)
			a.add(i, k+(i+1)%k)
		}
		m[fmt.Sprintf("antiprism%d", k)] = a
	}
	ico := newBGr(12)
	for i := 0; i < 5; i++ {
		ico.add(0, 1+i)
		ico.add(1+i, 1+(i+1)%5)
		ico.add(1+i, 6+i)
		ico.add(1+i, 6+(i+4)%5)
		ico.add(6+i, 6+(i+1)%5)
		ico.add(11, 6+i)
	}
	m["icosahedron"] = ico
	for k := 3; k <= 8; k++ {
		b := newBGr(2 + k)
		for i := 0; i < k; i++ {
			b.add(0, 2+i)
			b.add(1, 2+i)
		}
		m[fmt.Sprintf("K2,%d", k)] = b
	}
	m["grid3x3"] = cartesian(pathB(3), pathB(3))
	m["grid3x4"] = cartesian(pathB(3), pathB(4))
	// many blocks: a chain of K4s sharing cut vertices, with pendant triangles
	ch := newBGr(13)
	for b := 0; b < 4; b++ {
		vs := []int{3 * b, 3*b + 1, 3*b + 2, 3*b + 3}
		for i := range vs {
			for j := 0; j < i; j++ {
				ch.add(vs[i], vs[j])
			}
		}
	}
	m["K4-chain"] = ch
	return m
}

func pathB(n int) *BGr {
	g := newBGr(n)
	for i := 1; i < n; i++ {
		g.add(i-1, i)
	}
	return g
}

func namedNonplanarSeeds() map[string]*BGr {
	m := map[string]*BGr{}
	m["K5"] = completeB(5)
	m["K6"] = completeB(6)
	k33 := newBGr(6)
	for i := 0; i < 3; i++ {
		for j := 3; j < 6; j++ {
			k33.add(i, j)
		}
	}
	m["K3,3"] = k33
	k34 := newBGr(7)
	for i := 0; i < 3; i++ {
		for j := 3; j < 7; j++ {
			k34.add(i, j)
		}
	}
	m["K3,4"] = k34
	m["petersen"] = hardGraphs()["petersen"]
	m["moebius-ladder8"] = circulant(8, 1, 4)
	// a big planar block sharing a cut vertex with K3,3, and K5 hanging off a long path: the Kuratowski subgraph is far from vertex 0
	far := cartesian(pathB(3), pathB(2)).union(k33)
	far.add(5, 6)
	far.add(0, 6)
	m["grid+K3,3-in-one-block"] = far
	lp := pathB(7).union(completeB(5))
	lp.add(6, 7)
	m["path-then-K5"] = lp
	return m
}

// subdivisions of a base graph with per-edge subdivision counts in 0..2 (n <= limit).
func subdivisions(base *BGr, limit int, emit func(g *BGr, desc string)) {
	edges := base.edgeList()
	cnt := make([]int, len(edges))
	var rec func(i, extra int)
	rec = func(i, extra int) {
		if i == len(edges) {
			g := newBGr(base.n)
			for k, e := range edges {
				prev := e[0]
				for s := 0; s < cnt[k]; s++ {
					v := g.addVertex()
					g.add(prev, v)
					prev = v
				}
				g.add(prev, e[1])
			}
			emit(g, fmt.Sprint(cnt))
			return
		}
		for s := 0; s <= 2; s++ {
			if base.n+extra+s > limit {
				break
			}
			cnt[i] = s
			rec(i+1, extra+s)
		}
		cnt[i] = 0
	}
	rec(0, 0)
}

// ---- operations ----

func pOps(s *pState, emit func(ns *pState)) {
	g := s.g
	mk := func(h *BGr, op string) {
		emit(&pState{g: h, planar: s.planar, trace: append(append([]string{}, s.trace...), op)})
	}
	edges := g.edgeList()
	if g.n < c11MaxN {
		for _, e := range edges {
			h := g.clone()
			h.del(e[0], e[1])
			v := h.addVertex()
			h.add(e[0], v)
			h.add(v, e[1])
			mk(h, fmt.Sprintf("subdivide %d-%d", e[0], e[1]))
		}
		for v := 0; v < g.n; v++ {
			h := g.clone()
			w := h.addVertex()
			h.add(v, w)
			mk(h, fmt.Sprintf("pendant at %d", v))
		}
		h := g.clone()
		h.addVertex()
		mk(h, "isolated vertex")
	}
	if g.n >= 2 {
		mk(g.relabel(genSigma(g.n)), "relabel (0 1)")
		mk(g.relabel(genTau(g.n)), "relabel (0 1 .. n-1)")
	}
	if s.planar {
		for _, e := range edges {
			h := g.clone()
			h.del(e[0], e[1])
			mk(h, fmt.Sprintf("delete %d-%d", e[0], e[1]))
		}
	} else {
		for i := 0; i < g.n; i++ {
			for j := 0; j < i; j++ {
				if !g.has(i, j) {
					h := g.clone()
					h.add(i, j)
					mk(h, fmt.Sprintf("add %d-%d", j, i))
				}
			}
		}
	}
}

func evalPlanarState(pc planarCase) *Failure {
	g := bgrFromEdges(pc.N, pc.Edges)
	truth := pc.Truth != nil && *pc.Truth
	mk := func(cl, what string) *Failure {
		return &Failure{Class: "planar/" + cl, What: fmt.Sprintf("n=%d %d edges %v, built by %v: %s", pc.N, len(pc.Edges), clipEdges(pc.Edges), pc.Trace, what), Kind: "planar-state", Replay: pc}
	}
	got, cl, what := libPlanar(g.dense())
	if cl != "" {
		return mk(cl, what)
	}
	if got != truth {
		if truth {
			return mk("planar-graph-rejected", "planar by construction, IsPlanar = false")
		}
		return mk("nonplanar-graph-accepted", "non-planar by construction, IsPlanar = true")
	}
	return nil
}

func clipEdges(e [][2]int) string {
	s := fmt.Sprint(e)
	if len(s) > 200 {
		s = s[:200] + "..."
	}
	return s
}

func c11Search(c *Ctx, tables []bitmap) {
	type seedGroup struct {
		states []*pState
		depth  int
		name   string
	}
	var groups []seedGroup
	fullN, maxTriN := 7, 10
	depthAll, depthNamed := 0, 2
	stateCap := int64(600000)
	if c.Thorough() {
		fullN = 8
		depthAll, depthNamed = 1, 2
		stateCap = 8000000
	}
	c.Bound("partB_depth_all_seeds", depthAll)
	c.Bound("partB_depth_named_seeds", depthNamed)
	c.Bound("partB_state_cap", stateCap)
	levels := triangulations(fullN, maxTriN)
	var triSeeds, triReps []*pState
	for n := 4; n <= maxTriN; n++ {
		repSeen := map[string]bool{}
		for _, t := range levels[n] {
			st := &pState{g: t.g, planar: true, trace: []string{fmt.Sprintf("triangulation n=%d", n)}}
			triSeeds = append(triSeeds, st)
			if k := degSeqKey(t.g); !repSeen[k] {
				repSeen[k] = true
				triReps = append(triReps, st)
			}
			// triangulation + one missing edge, that edge subdivided once: non-planar with M <= 3n-6
			if n <= 9 {
				done := 0
				for i := 0; i < t.g.n && done < 3; i++ {
					for j := 0; j < i && done < 3; j++ {
						if !t.g.has(i, j) {
							h := t.g.clone()
							v := h.addVertex()
							h.add(i, v)
							h.add(v, j)
							triReps = append(triReps, &pState{g: h, planar: false, trace: []string{fmt.Sprintf("triangulation n=%d plus subdivided edge %d-%d", n, j, i)}})
							done++
						}
					}
				}
			}
		}
		c.Count(fmt.Sprintf("triangulation_seeds_n%d", n), int64(len(levels[n])))
	}
	// the 53100 triangulations on 8 vertices (thorough) are evaluated but not expanded; all others get depthAll
	var triSmall, triEight []*pState
	for _, st := range triSeeds {
		if st.g.n == 8 && fullN >= 8 {
			triEight = append(triEight, st)
		} else {
			triSmall = append(triSmall, st)
		}
	}
	var named []*pState
	for name, g := range namedPlanarSeeds() {
		named = append(named, &pState{g: g, planar: true, trace: []string{name}})
	}
	for name, g := range namedNonplanarSeeds() {
		named = append(named, &pState{g: g, planar: false, trace: []string{name}})
	}
	sort.Slice(named, func(i, j int) bool { return named[i].trace[0] < named[j].trace[0] })
	// deepest groups first, so that a state cap can only cut the shallow tail
	groups = append(groups, seedGroup{named, depthNamed, "named"})
	var subs []*pState
	lim := 11
	if c.Thorough() {
		lim = 13
	}
	subdivisions(completeB(5), lim, func(g *BGr, d string) {
		subs = append(subs, &pState{g: g, planar: false, trace: []string{"K5 subdivided " + d}})
	})
	subdivisions(namedNonplanarSeeds()["K3,3"], lim, func(g *BGr, d string) {
		subs = append(subs, &pState{g: g, planar: false, trace: []string{"K3,3 subdivided " + d}})
	})
	// the representatives group (one triangulation per degree sequence plus up to three "triangulation + subdivided
	// extra edge" graphs per triangulation) is by far the largest once expanded, so it comes last among the expanded ones
	groups = append(groups, seedGroup{subs, depthAll, "subdivisions"}, seedGroup{triSmall, depthAll, "triangulations"}, seedGroup{triEight, 0, "triangulations_n8"}, seedGroup{triReps, depthNamed - 1, "triangulation_representatives"})
	c.Count("subdivision_seeds", int64(len(subs)))

	km8 := kuratowskiMasks(8)
	seen := map[string]bool{}
	var seenMu sync.Mutex
	var states, trans int64
	big := int64(0)
	evalBatch := func(batch []*pState) {
		c.parFor(int64(len(batch)), 16, func(lo, hi int64) {
			for _, s := range batch[lo:hi] {
				t := s.planar
				pc := planarCase{N: s.g.n, Edges: s.g.edgeList(), Truth: &t, Trace: s.trace}
				c.Check(func() *Failure { return evalPlanarState(pc) })
				// cross-check the construction's truth value against the minor table where it applies
				if s.g.n <= 8 && tables != nil && len(tables) >= 8 {
					var mask uint64
					for _, e := range pc.Edges {
						mask |= 1 << uint(e[1]*(e[1]-1)/2+e[0])
					}
					var non bool
					if s.g.n <= 7 {
						non = tables[s.g.n].get(mask)
					} else {
						non = nonplanarByMinor(8, mask, km8, tables[7], make([]uint16, 8), make([]uint16, 8))
					}
					if non == s.planar {
						c.HarnessError("construction claims planar=%v for %v (n=%d, %v) but the minor oracle disagrees", s.planar, pc.Trace, s.g.n, pc.Edges)
					}
				}
			}
		})
	}
	capped := false
	cappedIn := ""
	for _, grp := range groups {
		var frontier []*pState
		for _, s := range grp.states {
			k := s.g.stateKey()
			if !seen[k] {
				seen[k] = true
				frontier = append(frontier, s)
			}
		}
		grpStates := int64(0)
		for depth := 0; ; depth++ {
			evalBatch(frontier)
			states += int64(len(frontier))
			grpStates += int64(len(frontier))
			c.Bound("partB_"+grp.name+"_depth_evaluated", depth)
			c.SetCount("partB_"+grp.name+"_states", grpStates)
			for _, s := range frontier {
				if s.g.n >= 9 {
					big++
				}
			}
			if depth >= grp.depth || c.Expired() {
				break
			}
			var next []*pState
			for _, s := range frontier {
				if states+int64(len(next)) > stateCap {
					capped = true
					if cappedIn == "" {
						cappedIn = fmt.Sprintf("%s at depth %d", grp.name, depth+1)
					}
					break
				}
				pOps(s, func(ns *pState) {
					trans++
					k := ns.g.stateKey()
					seenMu.Lock()
					dup := seen[k]
					if !dup {
						seen[k] = true
					}
					seenMu.Unlock()
					if !dup {
						next = append(next, ns)
					}
				})
			}
			frontier = next
		}
	}
	if capped {
		c.CapHit(fmt.Sprintf("part B state cap %d reached while expanding group %s; all earlier groups were explored to their stated depth", stateCap, cappedIn))
	}
	if c.Expired() {
		c.CapHit("deadline in part B")
	}
	c.States(states)
	c.Trans(trans)
	c.Traces(states)
	c.Nontrivial(big)
	c.Count("partB_states_with_n>=9", big)
	ff := false
	c.Sample("operation-trace", planarCase{N: 5, Edges: completeB(5).edgeList(), Truth: &ff, Trace: []string{"K5"}})
	_ = graph.IsPlanar
}
