package main

// C08: text decoders are total: malformed input gives an error, never a crash, hang or malformed graph.
// Every string over a reduced alphabet up to a length bound, plus the single-edit closure of valid
// encodings. Evaluated in batches inside crash-isolated workers; a batch that kills or hangs its worker
// is re-run one string at a time to name the culprit.

import (
	"encoding/json"
	"fmt"
	"sync"
	"time"

	"github.com/Tom-Johnston/mamba/graph"
)

type decCase struct {
	Decoder string `json:"decoder"` // graph6 | sparse6
	S       []byte `json:"bytes"`
}

type decBatch struct {
	Decoder string   `json:"decoder"`
	Strs    [][]byte `json:"strings,omitempty"`
	// generated batch: Prefix followed by the byte strings of length <= 3 over all 256 byte values with
	// enumeration index in [Lo,Hi) (index 0 is the empty string, then length 1, 2, 3 in base-256 order)
	Gen    bool   `json:"gen,omitempty"`
	Prefix []byte `json:"prefix,omitempty"`
	Lo     int64  `json:"lo,omitempty"`
	Hi     int64  `json:"hi,omitempty"`
}

const allBytes3 = 1 + 256 + 256*256 + 256*256*256

// allBytesString returns string number i of the enumeration of all byte strings of length <= 3.
func allBytesString(prefix []byte, i int64) []byte {
	out := append([]byte{}, prefix...)
	switch {
	case i == 0:
	case i < 1+256:
		out = append(out, byte(i-1))
	case i < 1+256+65536:
		x := i - 257
		out = append(out, byte(x>>8), byte(x))
	default:
		x := i - 257 - 65536
		out = append(out, byte(x>>16), byte(x>>8), byte(x))
	}
	return out
}

func (b decBatch) each(f func(s []byte)) {
	if !b.Gen {
		for _, s := range b.Strs {
			f(s)
		}
		return
	}
	for i := b.Lo; i < b.Hi; i++ {
		f(allBytesString(b.Prefix, i))
	}
}

const c08MaxN = 4096

// declaredN returns the vertex count declared by the string according to the format (ok=false: none).
func declaredN(decoder string, s string) (uint64, bool) {
	if decoder == "graph6" {
		if len(s) >= 10 && s[:10] == ">>graph6<<" {
			s = s[10:]
		}
		if len(s) == 0 {
			return 0, true // documented: the empty string is the empty graph
		}
	} else {
		if len(s) >= 11 && s[:11] == ">>sparse6<<" {
			s = s[11:]
		}
		if len(s) == 0 || s[0] != ':' {
			return 0, false
		}
		s = s[1:]
	}
	for i := 0; i < len(s); i++ {
		if s[i] < 63 || s[i] > 126 {
			return 0, false
		}
	}
	n, _, err := refParseSize(s)
	if err != nil {
		return 0, false
	}
	return n, true
}

func evalDecode(dc decCase) *Failure {
	s := string(dc.S)
	mk := func(cl, what string) *Failure {
		return &Failure{Class: "decoder/" + dc.Decoder + "/" + cl, What: fmt.Sprintf("%q: %s", clip(s), what), Kind: "decode-one", Replay: dc}
	}
	n, declared := declaredN(dc.Decoder, s)
	if declared && n > c08MaxN {
		return nil // outside the stated resource bound
	}
	var g graph.Graph
	var err error
	msg, p := try(func() {
		if dc.Decoder == "graph6" {
			var d *graph.DenseGraph
			d, err = graph.Graph6Decode(s)
			g = d
		} else {
			var d *graph.SparseGraph
			d, err = graph.Sparse6Decode(s)
			g = d
		}
	})
	if p {
		cl := "panic"
		if len(s) <= 2 {
			cl = "panic/short-string"
		}
		return mk(cl, msg)
	}
	if err != nil {
		return nil
	}
	if !declared {
		return mk("accepts-string-without-valid-size-field", fmt.Sprintf("returned a graph with N=%d", g.N()))
	}
	eg, prob := egFromLib(g)
	if prob != "" {
		return mk("returns-malformed-graph", prob)
	}
	if uint64(eg.N) != n {
		return mk("wrong-vertex-count", fmt.Sprintf("declared n=%d, graph has N=%d", n, eg.N))
	}
	if eg.N <= 64 {
		if w := selfConsistent(g); w != "" {
			return mk("returns-malformed-graph", w)
		}
	}
	// re-encode and decode again
	var g2 graph.Graph
	msg, p = try(func() {
		if dc.Decoder == "graph6" {
			var d *graph.DenseGraph
			d, err = graph.Graph6Decode(graph.Graph6Encode(g))
			g2 = d
		} else {
			var d *graph.SparseGraph
			d, err = graph.Sparse6Decode(graph.Sparse6Encode(g))
			g2 = d
		}
	})
	if p || err != nil {
		return mk("re-encode-decode-fails", fmt.Sprint(msg, err))
	}
	eg2, prob := egFromLib(g2)
	if prob != "" || eg2.key() != eg.key() {
		return mk("re-encode-decode-differs", fmt.Sprintf("%s vs %s %s", clip(eg.key()), clip(eg2.key()), prob))
	}
	return nil
}

func evalDecodeBatch(b decBatch) *Failure {
	var fs []*Failure
	seen := map[string]bool{}
	b.each(func(s []byte) {
		if f := evalDecode(decCase{Decoder: b.Decoder, S: s}); f != nil && !seen[f.Class] {
			seen[f.Class] = true
			fs = append(fs, f)
		}
	})
	if len(fs) == 0 {
		return nil
	}
	return &Failure{Class: "batch", What: fmt.Sprint(len(fs)), Kind: "decode-batch", Replay: fs}
}

func stringsOver(alpha []byte, maxLen int, emit func(s []byte)) {
	var cur []byte
	var rec func()
	rec = func() {
		emit(cur)
		if len(cur) == maxLen {
			return
		}
		for _, a := range alpha {
			cur = append(cur, a)
			rec()
			cur = cur[:len(cur)-1]
		}
	}
	rec()
}

func c08Strings(decoder string, thorough bool) [][]byte {
	seen := map[string]bool{}
	var out [][]byte
	add := func(s []byte) {
		k := string(s)
		if !seen[k] {
			seen[k] = true
			out = append(out, append([]byte{}, s...))
		}
	}
	alpha := []byte{62, 63, 64, 66, 73, 94, 126, 127}
	hdr := ">>graph6<<"
	maxLen := 6
	if thorough {
		maxLen = 7
	}
	if decoder == "sparse6" {
		hdr = ">>sparse6<<"
		full := append([]byte{':', ';'}, alpha...)
		stringsOver(full, 3, add)
		body := append([]byte{':'}, alpha[1:7]...) // bytes inside the format range plus a stray ':'
		stringsOver(body, maxLen, func(s []byte) { add(append([]byte{':'}, s...)) })
		stringsOver(alpha, 4, func(s []byte) { add(append([]byte{':'}, s...)) })
	} else {
		stringsOver(alpha, maxLen, add)
		stringsOver(alpha[1:7], maxLen+1, add)
	}
	// optional header and every proper prefix of it, in front of short strings
	short := [][]byte{}
	stringsOver([]byte{63, 66, 94, 126, ':'}, 3, func(s []byte) { short = append(short, append([]byte{}, s...)) })
	for l := 1; l <= len(hdr); l++ {
		for _, s := range short {
			add(append([]byte(hdr[:l]), s...))
		}
	}
	// the long size forms, complete and truncated at every length, bare and behind the header
	stringsOver([]byte{'~', '?', '@', 'A'}, 8, func(t []byte) {
		if len(t) == 0 || t[0] != '~' {
			return
		}
		b := t
		if decoder == "sparse6" {
			b = append([]byte{':'}, t...)
		}
		add(b)
		add(append([]byte(hdr), b...))
	})
	// single-edit closure of valid encodings
	var valid []string
	for n := 0; n <= 4; n++ {
		for m := uint64(0); m < 1<<uint(edgeCount(n)); m++ {
			g := egFromMG(mgFromMask(n, m))
			if decoder == "graph6" {
				valid = append(valid, refGraph6Encode(g))
			} else {
				valid = append(valid, refSparse6Encode(g))
			}
		}
	}
	for _, n := range []int{5, 8, 16, 17, 63, 64} {
		for i, g := range structuredBig(n, n <= 17) {
			if i%3 != 0 && n > 8 {
				continue
			}
			if decoder == "graph6" {
				valid = append(valid, refGraph6Encode(g))
			} else {
				valid = append(valid, refSparse6Encode(g))
			}
		}
	}
	editAlpha := append([]byte{':'}, alpha...)
	for _, v := range valid {
		b := []byte(v)
		if len(b) > 40 && !thorough {
			b = b[:40]
		}
		add(b)
		add(append([]byte(hdr), b...))
		for i := 0; i <= len(b); i++ {
			add(b[:i]) // truncation
			if i < len(b) {
				add(append(append([]byte{}, b[:i]...), b[i+1:]...))                 // delete
				add(append(append(append([]byte{}, b[:i+1]...), b[i]), b[i+1:]...)) // duplicate
				if len(b) <= 12 || i < 6 || i >= len(b)-3 {
					for _, a := range editAlpha {
						r := append([]byte{}, b...)
						r[i] = a
						add(r) // replace
					}
				}
			}
		}
	}
	return out
}

func runC08(c *Ctx) {
	c.Level = "exploration"
	c.Rule = "every byte string over the reduced alphabet {62,63,64,66,73,94,126,127} (+ ':' ';' for sparse6) up to length 6-7 (7-8 thorough), with the optional header and every proper prefix of it, plus the closure of valid encodings (all graphs with n<=4, structured graphs with n in {5,8,16,17,63,64}) under single-byte delete/duplicate/replace/truncate; strings whose declared n exceeds 4096 are skipped; each string: no panic, returns, error or a well-formed graph on the declared n whose re-encoding decodes to itself; evaluated in crash-isolated worker batches; non-trivial = string that the decoder accepts"
	if c.Thorough() {
		c.Rule += "; THOROUGH: additionally every byte string of length <= 3 over all 256 byte values (16843009 strings), bare and after each of the prefixes that open the size field or its long forms (6 prefixes for graph6, 7 for sparse6), generated inside the workers"
	}
	for _, dec := range []string{"graph6", "sparse6"} {
		strs := c08Strings(dec, c.Thorough())
		c.Count("strings_"+dec, int64(len(strs)))
		const B = 2000
		var batches []interface{}
		var raw []decBatch
		for i := 0; i < len(strs); i += B {
			j := i + B
			if j > len(strs) {
				j = len(strs)
			}
			b := decBatch{Decoder: dec, Strs: strs[i:j]}
			batches = append(batches, b)
			raw = append(raw, b)
		}
		total := int64(len(strs))
		if c.Thorough() {
			// thorough: every byte string of length <= 3 over ALL 256 byte values, bare and behind the prefixes
			// that lead into the size field and the long-size escapes; generated inside the workers
			prefixes := []string{"", "~", "~~", "?", "@", "C"}
			if dec == "sparse6" {
				prefixes = []string{"", ":", ":~", ":~~", ":?", ":@", ":C"}
			}
			for _, pf := range prefixes {
				const GB = 1 << 16
				for lo := int64(0); lo < allBytes3; lo += GB {
					hi := lo + GB
					if hi > allBytes3 {
						hi = allBytes3
					}
					b := decBatch{Decoder: dec, Gen: true, Prefix: []byte(pf), Lo: lo, Hi: hi}
					batches = append(batches, b)
					raw = append(raw, b)
				}
				total += allBytes3
			}
			c.Count("strings_all_256_byte_values_len<=3_"+dec, int64(len(prefixes))*allBytes3)
			c.Bound("full_byte_alphabet_prefixes_"+dec, prefixes)
		}
		var mu sync.Mutex
		var abnormal []int
		failedBatches := 0
		before := c.evals
		c.RunIsolatedEx("decode-batch", batches, 120*time.Second, func(i int, timedOut bool, stderr string) *Failure {
			mu.Lock()
			abnormal = append(abnormal, i)
			mu.Unlock()
			return nil
		}, func(i int, f *Failure) {
			// a batch reply carries the list of (already 5x re-evaluated) failures of its strings
			b, _ := json.Marshal(f.Replay)
			var fs []*Failure
			if err := json.Unmarshal(b, &fs); err != nil {
				c.HarnessError("cannot unpack batch failures: %v", err)
				return
			}
			mu.Lock()
			failedBatches++
			mu.Unlock()
			for _, x := range fs {
				c.Fail(x)
			}
		})
		c.evals = before + total
		if len(abnormal) > 0 {
			// batches that killed or hung their worker: re-run them one string at a time to name the culprit
			var singles []interface{}
			var singleCases []decCase
			for _, bi := range abnormal {
				raw[bi].each(func(s []byte) {
					dc := decCase{Decoder: dec, S: s}
					singles = append(singles, dc)
					singleCases = append(singleCases, dc)
				})
			}
			ev := c.evals
			c.RunIsolated("decode-one", singles, 60*time.Second, func(i int, timedOut bool, stderr string) *Failure {
				dc := singleCases[i]
				cl := "decoder/" + dc.Decoder + "/kills-the-process"
				if timedOut {
					cl = "decoder/" + dc.Decoder + "/does-not-terminate"
				}
				return &Failure{Class: cl, What: fmt.Sprintf("%q: %s", clip(string(dc.S)), stderr), Kind: "decode-one", Replay: dc}
			})
			c.evals = ev
		}
		// count accepted strings (non-trivial) in-process on a sample-free basis: only when no failure was seen
		if len(abnormal) == 0 && failedBatches == 0 {
			var acc int64
			c.parFor(int64(len(strs)), 512, func(lo, hi int64) {
				var a int64
				for _, s := range strs[lo:hi] {
					n, ok := declaredN(dec, string(s))
					if !ok || n > c08MaxN {
						continue
					}
					var err error
					try(func() {
						if dec == "graph6" {
							_, err = graph.Graph6Decode(string(s))
						} else {
							_, err = graph.Sparse6Decode(string(s))
						}
					})
					if err == nil {
						a++
					}
				}
				mu.Lock()
				acc += a
				mu.Unlock()
			})
			c.Nontrivial(acc)
			c.Count("accepted_"+dec, acc)
		}
	}
	c.Sample("string", decCase{Decoder: "sparse6", S: []byte(":An")})
	c.Sample("string", decCase{Decoder: "graph6", S: []byte("~?@")})
	c.Assume("strings whose declared vertex count exceeds 4096 are outside the property's resource bound")
}

func replayC08(kind string, raw json.RawMessage) *Failure {
	switch kind {
	case "decode-one":
		var dc decCase
		if err := json.Unmarshal(raw, &dc); err != nil {
			return &Failure{Class: "replay/bad-file", What: err.Error()}
		}
		return evalDecode(dc)
	case "decode-batch":
		var b decBatch
		if err := json.Unmarshal(raw, &b); err != nil {
			return &Failure{Class: "replay/bad-file", What: err.Error()}
		}
		return evalDecodeBatch(b)
	}
	return &Failure{Class: "replay/unsupported-kind", What: kind}
}

func init() { register("C08", runC08, replayC08) }
