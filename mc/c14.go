package main

// C14: DAWG serialisation round-trips to a behaviourally identical automaton.

import (
	"bytes"
	"encoding/gob"
	"encoding/json"
	"fmt"
	"sort"
	"time"

	"github.com/Tom-Johnston/mamba/dawg"
)

type gobCase struct {
	Family string   `json:"family"`
	Param  int      `json:"param,omitempty"`
	Words  []string `json:"words,omitempty"` // explicit word list (small cases)
	// ReusedBuilder: the Dawg is built by a Builder that has built (and finished) another word set before
	ReusedBuilder bool `json:"built_by_reused_builder,omitempty"`
}

type gobCaseJSON gobCase

func (gc gobCase) MarshalJSON() ([]byte, error) {
	x := gobCaseJSON(gc)
	x.Words = lat1encAll(gc.Words)
	return json.Marshal(x)
}

func (gc *gobCase) UnmarshalJSON(b []byte) error {
	var x gobCaseJSON
	if err := json.Unmarshal(b, &x); err != nil {
		return err
	}
	x.Words = lat1decAll(x.Words)
	*gc = gobCase(x)
	return nil
}

// gobWords materialises the (sorted) word list of a case.
func gobWords(gc gobCase) []string {
	var ws []string
	switch gc.Family {
	case "explicit":
		ws = gc.Words
	case "branching": // b single-byte words: root has b children
		for i := 0; i < gc.Param; i++ {
			ws = append(ws, string([]byte{byte(i)}))
		}
	case "branching-rev": // the b largest bytes
		for i := 256 - gc.Param; i < 256; i++ {
			ws = append(ws, string([]byte{byte(i)}))
		}
	case "branching-under-prefix": // "xy"+c for b bytes c, plus the word "x"
		ws = append(ws, "x")
		for i := 0; i < gc.Param; i++ {
			ws = append(ws, "xy"+string([]byte{byte(i)}))
		}
	case "branching-two-levels": // b first letters, each followed by b second letters (shared subtree)
		for i := 0; i < gc.Param; i++ {
			for j := 0; j < gc.Param; j++ {
				ws = append(ws, string([]byte{byte(i), byte(j)}))
			}
		}
	case "chain": // a single word of length Param: Param+1 nodes
		ws = append(ws, string(bytes.Repeat([]byte{'a'}, gc.Param)))
	case "chain-all-prefixes": // every prefix of a^Param: Param+1 nodes, Param+1 words
		for i := 0; i <= gc.Param; i++ {
			ws = append(ws, string(bytes.Repeat([]byte{'q'}, i)))
		}
	case "discarded-ids": // many words sharing suffixes: the builder discards many nodes, surviving ids exceed 127
		for i := 0; i < gc.Param; i++ {
			ws = append(ws, fmt.Sprintf("%03d-suffix", i))
		}
		ws = append(ws, "zz", "zzz-tail-0123456789-0123456789-0123456789-0123456789-0123456789-0123456789-0123456789-0123456789-0123456789-0123456789-0123456789-0123456789-0123456789")
	case "wordcount": // all length-2 words over Param letters (plus their length-1 prefixes for odd Param)
		for i := 0; i < gc.Param; i++ {
			if gc.Param%2 == 1 {
				ws = append(ws, string([]byte{byte(i)}))
			}
			for j := 0; j < gc.Param; j++ {
				ws = append(ws, string([]byte{byte(i), byte(j)}))
			}
		}
	case "wordcount-power", "wordcount-power-minus", "wordcount-power-plus":
		// all words of length L over an s-letter alphabet (Param = 100*s + L): s^L words in an automaton of L+1 nodes;
		// -minus drops the last word, -plus adds the empty word
		sz, L := gc.Param/100, gc.Param%100
		var rec func(cur []byte)
		rec = func(cur []byte) {
			if len(cur) == L {
				ws = append(ws, string(cur))
				return
			}
			for a := 0; a < sz; a++ {
				rec(append(cur, byte('a'+a)))
			}
		}
		rec(nil)
		if gc.Family == "wordcount-power-minus" {
			ws = ws[:len(ws)-1]
		}
		if gc.Family == "wordcount-power-plus" {
			ws = append(ws, "")
		}
	case "wordcount-exact": // exactly Param words: the numbers 0..Param-1 as three big-endian bytes
		for i := 0; i < gc.Param; i++ {
			ws = append(ws, string([]byte{byte(i >> 16), byte(i >> 8), byte(i)}))
		}
	}
	sort.Slice(ws, func(i, j int) bool { return bytes.Compare([]byte(ws[i]), []byte(ws[j])) < 0 })
	return ws
}

func searchBattery(d *dawg.Dawg, words []string) string {
	var sb bytes.Buffer
	maxLen := 0
	for _, w := range words {
		if len(w) > maxLen {
			maxLen = len(w)
		}
	}
	if maxLen > 4 {
		maxLen = 4
	}
	for l := 0; l <= maxLen+1; l++ {
		pat := bytes.Repeat([]byte{'?'}, l)
		sol, ids := d.Search(dawg.NewPatternSearcher(pat, '?'))
		fmt.Fprintf(&sb, "P%d:%d:%v|", l, len(sol), idsDigest(ids))
		sol, ids = d.Search(dawg.NewAnagramSearcher(pat, '?'))
		fmt.Fprintf(&sb, "A%d:%d:%v|", l, len(sol), idsDigest(ids))
	}
	if len(words) > 0 {
		w := words[len(words)/2]
		sol, ids := d.Search(dawg.NewPatternSearcher([]byte(w), 0xfe))
		fmt.Fprintf(&sb, "W:%q:%v|", sol, ids)
		sol, ids = d.Search(dawg.NewAnagramSearcher([]byte(w), 0xfe))
		fmt.Fprintf(&sb, "WA:%d:%v|", len(sol), idsDigest(ids))
	}
	return sb.String()
}

func idsDigest(ids []int) string {
	h := uint64(1469598103934665603)
	for _, v := range ids {
		h ^= uint64(v)
		h *= 1099511628211
	}
	return fmt.Sprintf("%d/%x", len(ids), h)
}

func evalGob(gc gobCase) *Failure {
	words := gobWords(gc)
	mk := func(cl, what string) *Failure {
		desc := fmt.Sprintf("%s(%d)", gc.Family, gc.Param)
		if gc.Family == "explicit" {
			desc = fmt.Sprintf("%q", gc.Words)
		}
		return &Failure{Class: "dawg/gob/" + cl, What: fmt.Sprintf("%s [%d words]: %s", desc, len(words), what), Kind: "dawg-gob", Replay: gc}
	}
	var d *dawg.Dawg
	var err error
	if msg, p := try(func() {
		if gc.ReusedBuilder {
			db := new(dawg.Builder)
			db.Initialise()
			for _, w := range []string{"a", "b", "ba", "q"} {
				db.Add([]byte(w))
			}
			db.Finish()
			db.Initialise()
			for _, w := range words {
				if e := db.Add([]byte(w)); e != nil {
					err = e
					return
				}
			}
			d, err = db.Finish()
			return
		}
		d, err = dawg.New(toBytes(words, false))
	}); p || err != nil {
		return mk("build-failed", fmt.Sprint(msg, err))
	}
	snap := snapshotDawg(d)
	maxBranch := maxBranching(words)
	sfx := ""
	if maxBranch >= 128 {
		sfx = "/node-with-128-or-more-links"
	}
	battery := ""
	if msg, p := try(func() { battery = searchBattery(d, words) }); p {
		return mk("search-panics-before-encoding", msg)
	}
	var enc []byte
	if msg, p := try(func() { enc, err = d.GobEncode() }); p || err != nil {
		return mk("encode-failed"+sfx, fmt.Sprint(msg, err))
	}
	// an encoding belongs to the caller: encoding other Dawgs afterwards (smaller and larger ones) must not change it
	{
		held := append([]byte{}, enc...)
		for _, other := range [][]string{{"ab", "b"}, {""}, {"x", "xy", "xyz", "xyzz", "y", "z"}, words} {
			if o, e := dawg.New(toBytes(other, false)); e == nil {
				try(func() { o.GobEncode() })
			}
		}
		if !bytes.Equal(enc, held) {
			return mk("encoding-changed-by-a-later-GobEncode"+sfx, "the bytes returned by GobEncode were overwritten when another Dawg was encoded")
		}
	}
	decodeInto := func(t *dawg.Dawg, how string) *Failure {
		if cl, what := checkDawgAgainst(t, words, nonMembers(words), false); cl != "" {
			return mk(how+"/"+cl+sfx, what)
		}
		s2 := snapshotDawg(t)
		if s2.Nodes != snap.Nodes {
			return mk(how+"/node-count"+sfx, fmt.Sprintf("decoded automaton has %d nodes, original %d", s2.Nodes, snap.Nodes))
		}
		b2 := ""
		if msg, p := try(func() { b2 = searchBattery(t, words) }); p {
			return mk(how+"/search-panics"+sfx, msg)
		}
		if b2 != battery {
			return mk(how+"/search-results"+sfx, fmt.Sprintf("search battery differs: %.200s vs %.200s", b2, battery))
		}
		var enc2 []byte
		var err error
		if msg, p := try(func() { enc2, err = t.GobEncode() }); p || err != nil {
			return mk(how+"/re-encode-failed"+sfx, fmt.Sprint(msg, err))
		}
		if !bytes.Equal(enc, enc2) {
			return mk(how+"/re-encoding-differs"+sfx, fmt.Sprintf("%d vs %d bytes", len(enc), len(enc2)))
		}
		return nil
	}
	// direct, into a fresh receiver
	t1 := new(dawg.Dawg)
	if msg, p := try(func() { err = t1.GobDecode(enc) }); p || err != nil {
		return mk("direct/decode-failed"+sfx, fmt.Sprint(msg, err))
	}
	if f := decodeInto(t1, "direct"); f != nil {
		return f
	}
	// the decoded value owns its data: decode from a scratch copy of the bytes, overwrite the scratch buffer
	// (as a caller reading record after record into one buffer does), and check the value again
	{
		scratch := append([]byte{}, enc...)
		t1b := new(dawg.Dawg)
		if msg, p := try(func() { err = t1b.GobDecode(scratch) }); p || err != nil {
			return mk("direct/decode-failed"+sfx, fmt.Sprint(msg, err))
		}
		for i := range scratch {
			scratch[i] = 0xAA
		}
		if f := decodeInto(t1b, "direct-then-input-overwritten"); f != nil {
			return f
		}
		for i := range scratch {
			scratch[i] = 0
		}
		if f := decodeInto(t1b, "direct-then-input-overwritten"); f != nil {
			return f
		}
	}
	// direct, into a non-empty receiver: must replace it
	for ri, rw := range [][]string{{"other", "words", "wordsworth"}, {"", "q"}, {"", "a", "ab", "b"}, {"x", "xy", "xyz", "z"}} {
		t2, _ := dawg.New(toBytes(rw, false))
		if ri%2 == 1 {
			t2.GobEncode() // a receiver that has itself been encoded before (cached encodings must not survive a decode)
			t2.Search(dawg.NewPatternSearcher([]byte("?"), '?'))
		}
		if msg, p := try(func() { err = t2.GobDecode(enc) }); p || err != nil {
			return mk("into-nonempty/decode-failed"+sfx, fmt.Sprint(msg, err))
		}
		if f := decodeInto(t2, fmt.Sprintf("into-nonempty-%d", ri)); f != nil {
			return f
		}
		// and a second decode into the receiver that has just been decoded into
		if msg, p := try(func() { err = t2.GobDecode(enc) }); p || err != nil {
			return mk("into-nonempty/second-decode-failed"+sfx, fmt.Sprint(msg, err))
		}
		if f := decodeInto(t2, fmt.Sprintf("into-decoded-%d", ri)); f != nil {
			return f
		}
	}
	// one encoding/gob decoder fed two values in a row into the same receiver
	{
		other, _ := dawg.New(toBytes([]string{"", "a"}, false))
		var buf2 bytes.Buffer
		ge := gob.NewEncoder(&buf2)
		gd := gob.NewDecoder(&buf2)
		t4 := new(dawg.Dawg)
		if msg, p := try(func() {
			if err = ge.Encode(other); err == nil {
				if err = gd.Decode(t4); err == nil {
					if err = ge.Encode(d); err == nil {
						err = gd.Decode(t4)
					}
				}
			}
		}); p || err != nil {
			return mk("gob-stream/failed"+sfx, fmt.Sprint(msg, err))
		}
		if f := decodeInto(t4, "gob-stream"); f != nil {
			return f
		}
	}
	// through encoding/gob
	var buf bytes.Buffer
	if msg, p := try(func() { err = gob.NewEncoder(&buf).Encode(d) }); p || err != nil {
		return mk("gob/encode-failed"+sfx, fmt.Sprint(msg, err))
	}
	t3 := new(dawg.Dawg)
	if msg, p := try(func() { err = gob.NewDecoder(&buf).Decode(t3) }); p || err != nil {
		return mk("gob/decode-failed"+sfx, fmt.Sprint(msg, err))
	}
	if f := decodeInto(t3, "gob"); f != nil {
		return f
	}
	// the source automaton is unchanged by encoding
	if s3 := snapshotDawg(d); s3.Dump != snap.Dump {
		return mk("source-modified", "GobEncode changed the automaton")
	}
	return nil
}

// maxBranching is the largest number of distinct next letters after any prefix (for the classifier).
func maxBranching(words []string) int {
	cnt := map[string]map[byte]bool{}
	for _, w := range words {
		for i := 0; i < len(w); i++ {
			if cnt[w[:i]] == nil {
				cnt[w[:i]] = map[byte]bool{}
			}
			cnt[w[:i]][w[i]] = true
		}
	}
	mx := 0
	for _, m := range cnt {
		if len(m) > mx {
			mx = len(m)
		}
	}
	return mx
}

func nonMembers(words []string) []string {
	set := map[string]bool{}
	for _, w := range words {
		set[w] = true
	}
	var out []string
	add := func(s string) {
		if !set[s] {
			out = append(out, s)
		}
	}
	add("")
	add("\x00")
	add("\xff")
	add("zzzz")
	for i, w := range words {
		if i%7 == 0 || len(words) < 300 {
			add(w + "\x00")
			add(w + "a")
			if len(w) > 0 {
				add(w[:len(w)-1])
				add(w[:len(w)-1] + "\x7f")
			}
		}
	}
	return out
}

func runC14(c *Ctx) {
	c.Level = "exploration"
	c.Rule = "every subset of the 15 words of length <=3 over {a,b} and of the 13 words of length <=2 over {0x00,'m',0xff}, plus boundary families: root branching b for every b in [0,256] (ascending, descending, under a prefix, two levels for b<=40), chains with node counts 2..300, id-discarding builds, word counts across 127/128, 255/256, 65535/65536 (the latter in quick as all words of a fixed length over a small alphabet, minus one, plus one); the decoded value re-checked after the caller overwrites the bytes it was decoded from; each encoded with GobEncode and through encoding/gob, decoded into a fresh and into a non-empty receiver; decoded automaton compared on language, ranks, NumberOfWords, node count, a battery of searches, and byte-identical re-encoding; non-trivial = case with >= 2 words"
	var cases []gobCase
	u3 := wordsUpTo([]byte("ab"), 3)
	stride := uint64(2)
	if c.Thorough() {
		stride = 1
	}
	for s := uint64(0); s < 1<<uint(len(u3)); s += stride {
		cases = append(cases, gobCase{Family: "explicit", Words: subsetOf(u3, s)})
		if s%16 == 4 {
			cases = append(cases, gobCase{Family: "explicit", Words: subsetOf(u3, s), ReusedBuilder: true})
		}
	}
	ub := wordsUpTo([]byte{0x00, 'm', 0xff}, 2)
	for s := uint64(0); s < 1<<uint(len(ub)); s += stride {
		cases = append(cases, gobCase{Family: "explicit", Words: subsetOf(ub, s)})
	}
	for b := 0; b <= 256; b++ {
		cases = append(cases, gobCase{Family: "branching", Param: b}, gobCase{Family: "branching-rev", Param: b}, gobCase{Family: "branching-under-prefix", Param: b})
		if b <= 40 || (c.Thorough() && b%16 == 0) || b == 127 || b == 128 || b == 129 || (b == 256 && c.Thorough()) {
			cases = append(cases, gobCase{Family: "branching-two-levels", Param: b})
		}
	}
	for n := 0; n <= 300; n++ {
		if n <= 10 || (n >= 120 && n <= 135) || (n >= 250 && n <= 262) || c.Thorough() {
			cases = append(cases, gobCase{Family: "chain", Param: n}, gobCase{Family: "chain-all-prefixes", Param: n})
		}
	}
	for _, n := range []int{1, 10, 100, 127, 128, 200, 500} {
		cases = append(cases, gobCase{Family: "discarded-ids", Param: n})
	}
	for _, n := range []int{11, 12, 16, 255, 256} {
		if n > 200 && !c.Thorough() {
			continue
		}
		cases = append(cases, gobCase{Family: "wordcount", Param: n})
	}
	// word counts at powers of two (and one off) in tiny automata: 2^7, 2^8, 2^14, 2^15, 2^16, 2^17, 16^4, 4^8
	for _, pr := range []int{207, 208, 214, 215, 216, 217, 1604, 408, 1602, 404} {
		for _, fam := range []string{"wordcount-power", "wordcount-power-minus", "wordcount-power-plus"} {
			cases = append(cases, gobCase{Family: fam, Param: pr})
		}
	}
	for _, n := range []int{126, 127, 128, 129, 254, 255, 256, 257, 65535, 65536, 65537} {
		if n > 60000 && !c.Thorough() {
			continue
		}
		cases = append(cases, gobCase{Family: "wordcount-exact", Param: n})
	}
	fam := map[string]int64{}
	for _, gc := range cases {
		fam[gc.Family]++
	}
	for k, v := range fam {
		c.SetCount("cases_"+k, v)
	}
	// evaluated in crash-isolated worker processes: a decoder fed a corrupt child count can ask for an
	// unbounded allocation, which is a fatal (unrecoverable) error in Go
	ics := make([]interface{}, len(cases))
	for i, gc := range cases {
		ics[i] = gc
		if gc.Family != "explicit" || len(gc.Words) >= 2 {
			c.Nontrivial(1)
		}
	}
	c.RunIsolated("dawg-gob", ics, 180*time.Second, func(i int, timedOut bool, stderr string) *Failure {
		gc := cases[i]
		cl := "dawg/gob/process-crash"
		if timedOut {
			cl = "dawg/gob/does-not-terminate"
		}
		if maxBranching(gobWords(gc)) >= 128 {
			cl += "/node-with-128-or-more-links"
		}
		return &Failure{Class: cl, What: fmt.Sprintf("%s(%d): encode/decode round trip kills the process: %s", gc.Family, gc.Param, stderr), Kind: "dawg-gob", Replay: gc}
	})
	c.Sample("explicit", gobCase{Family: "explicit", Words: []string{"", "ab", "abb", "b"}})
	c.Sample("boundary", gobCase{Family: "branching", Param: 128})
}

func replayC14(kind string, raw json.RawMessage) *Failure {
	if kind != "dawg-gob" {
		return unsupportedKind(kind)
	}
	var gc gobCase
	if err := json.Unmarshal(raw, &gc); err != nil {
		return &Failure{Class: "replay/bad-file", What: err.Error()}
	}
	return evalGob(gc)
}

func init() { register("C14", runC14, replayC14) }
