package main

// Crash- and hang-isolated evaluation: cases are evaluated by worker subprocesses (mc aux worker <prop>)
// under an address-space limit, one case at a time over a pipe. A case that kills the worker (fatal
// error: out of memory, stack overflow) or does not answer within its deadline is recorded as a failure
// of that case and the worker is replaced. Used where the library under test can allocate or loop
// without bound on a bad input.

import (
	"bufio"
	"encoding/json"
	"fmt"
	"io"
	"os"
	"os/exec"
	"strings"
	"sync"
	"sync/atomic"
	"syscall"
	"time"
)

type isoRequest struct {
	Idx  int             `json:"i"`
	Kind string          `json:"k"`
	Case json.RawMessage `json:"c"`
}

type isoReply struct {
	Idx     int      `json:"i"`
	F       *Failure `json:"f,omitempty"`
	Harness string   `json:"h,omitempty"`
}

func init() {
	auxCmds["worker"] = func(args []string) {
		if len(args) < 1 || registry[args[0]] == nil || registry[args[0]].replay == nil {
			fmt.Fprintln(os.Stderr, "worker: unknown property")
			os.Exit(2)
		}
		memGB := uint64(12)
		lim := syscall.Rlimit{Cur: memGB << 30, Max: memGB << 30}
		syscall.Setrlimit(syscall.RLIMIT_AS, &lim)
		replay := registry[args[0]].replay
		in := bufio.NewReaderSize(os.Stdin, 1<<20)
		out := bufio.NewWriter(os.Stdout)
		for {
			line, err := in.ReadBytes('\n')
			if len(line) > 0 {
				var rq isoRequest
				if e := json.Unmarshal(line, &rq); e != nil {
					fmt.Fprintln(os.Stderr, "worker: bad request:", e)
					os.Exit(2)
				}
				rp := isoReply{Idx: rq.Idx}
				f := replay(rq.Kind, rq.Case)
				if f != nil {
					for k := 0; k < 5; k++ {
						g := replay(rq.Kind, rq.Case)
						if g == nil || g.Class != f.Class {
							rp.Harness = fmt.Sprintf("non-reproducible failure %s: %s", f.Class, f.What)
							f = nil
							break
						}
					}
					rp.F = f
				}
				b, _ := json.Marshal(rp)
				out.Write(b)
				out.WriteByte('\n')
				out.Flush()
			}
			if err != nil {
				return
			}
		}
	}
}

type isoWorker struct {
	cmd     *exec.Cmd
	stdin   io.WriteCloser
	stdout  *bufio.Reader
	stderr  *strings.Builder
	replies chan isoReply
	dead    chan struct{}
}

func startWorker(prop string) (*isoWorker, error) {
	exe, err := os.Executable()
	if err != nil {
		return nil, err
	}
	cmd := exec.Command(exe, "aux", "worker", prop)
	cmd.Env = append(os.Environ(), "GOMAXPROCS=2")
	stdin, _ := cmd.StdinPipe()
	stdout, _ := cmd.StdoutPipe()
	w := &isoWorker{cmd: cmd, stdin: stdin, stderr: &strings.Builder{}, replies: make(chan isoReply, 1), dead: make(chan struct{})}
	cmd.Stderr = &capWriter{sb: w.stderr, max: 4000}
	if err := cmd.Start(); err != nil {
		return nil, err
	}
	w.stdout = bufio.NewReaderSize(stdout, 1<<20)
	go func() {
		for {
			line, err := w.stdout.ReadBytes('\n')
			if len(line) > 0 {
				var rp isoReply
				if json.Unmarshal(line, &rp) == nil {
					w.replies <- rp
				}
			}
			if err != nil {
				close(w.dead)
				return
			}
		}
	}()
	return w, nil
}

type capWriter struct {
	sb  *strings.Builder
	max int
	mu  sync.Mutex
}

func (c *capWriter) Write(p []byte) (int, error) {
	c.mu.Lock()
	defer c.mu.Unlock()
	if c.sb.Len() < c.max {
		n := c.max - c.sb.Len()
		if n > len(p) {
			n = len(p)
		}
		c.sb.Write(p[:n])
	}
	return len(p), nil
}

func (w *isoWorker) kill() {
	w.stdin.Close()
	if w.cmd.Process != nil {
		w.cmd.Process.Kill()
	}
	w.cmd.Wait()
}

// RunIsolated evaluates cases[i] (JSON-serialisable, replay kind `kind`) in worker subprocesses.
// onAbnormal builds the failure for a case that crashed the worker or exceeded the deadline.
func (c *Ctx) RunIsolated(kind string, cases []interface{}, deadline time.Duration, onAbnormal func(i int, timedOut bool, stderr string) *Failure) {
	c.RunIsolatedEx(kind, cases, deadline, onAbnormal, nil)
}

// RunIsolatedEx: onFailure, if not nil, receives the failures returned by workers instead of c.Fail.
func (c *Ctx) RunIsolatedEx(kind string, cases []interface{}, deadline time.Duration, onAbnormal func(i int, timedOut bool, stderr string) *Failure, onFailure func(i int, f *Failure)) {
	var next int64
	var wg sync.WaitGroup
	nw := c.Workers
	if nw > len(cases) {
		nw = len(cases)
	}
	for k := 0; k < nw; k++ {
		wg.Add(1)
		go func() {
			defer wg.Done()
			var w *isoWorker
			defer func() {
				if w != nil {
					w.kill()
				}
			}()
			attempt := func(i int) (rp isoReply, abnormal, timedOut bool, stderr string) {
				if w == nil {
					var err error
					w, err = startWorker(c.Prop)
					if err != nil {
						c.HarnessError("cannot start worker: %v", err)
						return rp, true, false, err.Error()
					}
				}
				raw, _ := json.Marshal(cases[i])
				b, _ := json.Marshal(isoRequest{Idx: i, Kind: kind, Case: raw})
				b = append(b, '\n')
				if _, err := w.stdin.Write(b); err != nil {
					st := w.stderr.String()
					w.kill()
					w = nil
					return rp, true, false, st
				}
				select {
				case rp = <-w.replies:
					return rp, false, false, ""
				case <-w.dead:
					st := w.stderr.String()
					w.kill()
					w = nil
					return rp, true, false, st
				case <-time.After(deadline):
					st := w.stderr.String()
					w.kill()
					w = nil
					return rp, true, true, st
				}
			}
			for {
				i := int(atomic.AddInt64(&next, 1) - 1)
				if i >= len(cases) {
					return
				}
				c.Evals(1)
				rp, abnormal, timedOut, stderr := attempt(i)
				if abnormal {
					// confirm once in a fresh worker
					_, ab2, to2, st2 := attempt(i)
					if !ab2 {
						c.HarnessError("case %d crashed/hung a worker once but not when repeated: %.300s", i, stderr)
						continue
					}
					if st2 != "" {
						stderr = st2
					}
					c.Fail(onAbnormal(i, timedOut && to2, firstLines(stderr, 3)))
					continue
				}
				if rp.Harness != "" {
					c.HarnessError("%s", rp.Harness)
				}
				if rp.F != nil {
					if onFailure != nil {
						onFailure(i, rp.F)
					} else {
						c.Fail(rp.F)
					}
				}
			}
		}()
	}
	wg.Wait()
}

func firstLines(s string, n int) string {
	lines := strings.Split(s, "\n")
	if len(lines) > n {
		lines = lines[:n]
	}
	r := strings.Join(lines, " | ")
	if len(r) > 300 {
		r = r[:300]
	}
	return r
}
