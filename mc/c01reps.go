package main

// C01/C02 extension: one representative per isomorphism class on 8 and 9 vertices (taken from the library's own
// search, used only as an input generator - C03 checks it) under a fixed battery of relabellings.

import (
	"fmt"
	"math/bits"
	"sort"
	"strings"
	"sync"

	"github.com/Tom-Johnston/mamba/graph/search"
)

var repCache sync.Map

func classReps(n int) []uint64 {
	if v, ok := repCache.Load(n); ok {
		return v.([]uint64)
	}
	var out []uint64
	it := search.All(n, 0, 1)
	for it.Next() {
		out = append(out, mgFromGraph(it.Value()).mask())
	}
	repCache.Store(n, out)
	return out
}

func relabelBattery(n int, transpositions bool, lcg int) [][]int {
	var ps [][]int
	if transpositions {
		for a := 0; a < n; a++ {
			for b := a + 1; b < n; b++ {
				p := make([]int, n)
				for i := range p {
					p[i] = i
				}
				p[a], p[b] = b, a
				ps = append(ps, p)
			}
		}
	}
	rev := make([]int, n)
	for i := range rev {
		rev[i] = n - 1 - i
	}
	ps = append(ps, rev, genTau(n))
	for s := 1; s <= lcg; s++ {
		ps = append(ps, lcgPerm(n, uint64(s)*7919+uint64(n)))
	}
	return ps
}

func c01Reps(c *Ctx) {
	for _, n := range []int{8, 9} {
		reps := classReps(n)
		if len(reps) != []int{12346, 274668}[n-8] {
			c.HarnessError("search.All(%d) produced %d graphs (used as input generator)", n, len(reps))
			return
		}
		lcg := 6
		if n == 9 {
			lcg = 2
			if c.Thorough() {
				lcg = 10
			}
		}
		ps := relabelBattery(n, n == 8 || c.Thorough(), lcg)
		c.parFor(int64(len(reps)), 64, func(lo, hi int64) {
			for _, m := range reps[lo:hi] {
				base, cl, what := canonOf("dense", n, m)
				if cl != "" {
					c.Fail(canonFail(cl, what, "dense", n, m, nil))
					continue
				}
				for _, p := range ps {
					img := permuteMask(n, m, p)
					x, cl, _ := canonOf("dense", n, img)
					c.Evals(1)
					if cl != "" || x != base {
						mm, pp := m, p
						c.Check(func() *Failure { return checkCanonInvariance("dense", n, mm, pp) })
					}
				}
			}
		})
		c.Nontrivial(int64(len(reps)) * int64(len(ps)))
		c.Count(fmt.Sprintf("class_representatives_n%d_x_relabellings%d", n, len(ps)), int64(len(reps)))
	}
}

// mixedUnions: disjoint unions of up to three small components (cycles, paths, stars, K4), the shapes where
// automorphism pruning between isomorphic and non-isomorphic components matters.
func mixedUnions(maxN int) map[string]*BGr {
	type comp struct {
		name string
		g    *BGr
	}
	star := func(k int) *BGr {
		g := newBGr(k + 1)
		for i := 1; i <= k; i++ {
			g.add(0, i)
		}
		return g
	}
	comps := []comp{{"C3", circulant(3, 1)}, {"C4", circulant(4, 1)}, {"C5", circulant(5, 1)}, {"C6", circulant(6, 1)}, {"P2", pathB(2)}, {"P3", pathB(3)}, {"P4", pathB(4)}, {"K4", completeB(4)}, {"S3", star(3)}, {"K1", completeB(1)}}
	out := map[string]*BGr{}
	for i := range comps {
		for j := i; j < len(comps); j++ {
			g2 := comps[i].g.union(comps[j].g)
			if g2.n <= maxN {
				out[comps[i].name+"+"+comps[j].name] = g2
			}
			for k := j; k < len(comps); k++ {
				g3 := g2.union(comps[k].g)
				if g3.n <= maxN {
					out[comps[i].name+"+"+comps[j].name+"+"+comps[k].name] = g3
				}
			}
		}
	}
	return out
}

// regularUnions: disjoint unions of two non-isomorphic connected regular graphs of the same degree (one of them
// possibly complete). The union is regular but not vertex transitive, the unit partition is equitable, and the
// search has to tell the components apart by branching - with strongly regular components whose stabiliser orbits
// are finer than what refinement sees this is where stale automorphism information does damage.
func regularUnions(maxN int) map[string]*BGr {
	hg := hardGraphs()
	type reg struct {
		name string
		g    *BGr
		d    int
	}
	var regs []reg
	for name, g := range hg {
		if strings.Contains(name, "u") && name != "circ11_1_3" || strings.Contains(name, "2K4") || strings.Contains(name, "4C4") || strings.Contains(name, "3C4") {
			continue // already disconnected (or a complement of one)
		}
		d := bits.OnesCount64(g.adj[0])
		ok := true
		for v := 0; v < g.n; v++ {
			if bits.OnesCount64(g.adj[v]) != d {
				ok = false
			}
		}
		if ok && g.n <= 26 {
			regs = append(regs, reg{name, g, d})
		}
	}
	for d := 2; d <= 12; d++ {
		regs = append(regs, reg{fmt.Sprintf("K%d", d+1), completeB(d + 1), d})
		if d%2 == 0 || true {
			regs = append(regs, reg{fmt.Sprintf("K%d,%d", d, d), circulantBip(d), d})
		}
	}
	sort.Slice(regs, func(i, j int) bool { return regs[i].name < regs[j].name })
	out := map[string]*BGr{}
	for i := range regs {
		for j := i + 1; j < len(regs); j++ {
			a, b := regs[i], regs[j]
			if a.d != b.d || a.g.n+b.g.n > maxN || (a.g.n == b.g.n && a.g.key() == b.g.key()) {
				continue
			}
			out[a.name+"|"+b.name] = a.g.union(b.g)
			out[b.name+"|"+a.name] = b.g.union(a.g)
		}
	}
	return out
}

// circulantBip returns the complete bipartite graph K(d,d).
func circulantBip(d int) *BGr {
	g := newBGr(2 * d)
	for i := 0; i < d; i++ {
		for j := 0; j < d; j++ {
			g.add(i, d+j)
		}
	}
	return g
}

func c01RegularUnions(c *Ctx) {
	lcg, maxN := 14, 28
	if c.Thorough() {
		lcg, maxN = 400, 44
	}
	c.Bound("regular_unions_max_vertices", maxN)
	gs := regularUnions(maxN)
	names := make([]string, 0, len(gs))
	for k := range gs {
		names = append(names, k)
	}
	sortStrings(names)
	c.SetCount("regular_unions", int64(len(names)))
	c.parFor(int64(len(names)), 1, func(lo, hi int64) {
		for _, name := range names[lo:hi] {
			g := gs[name]
			base, cl, what := bigCanon(g)
			edges := g.edgeList()
			if cl != "" {
				c.Fail(&Failure{Class: cl, What: name + ": " + what, Kind: "canon-big", Replay: bigCanonCase{Name: name, N: g.n, Edges: edges, Perm: genSigma(g.n)}})
				continue
			}
			for _, p := range relabelBattery(g.n, false, lcg) {
				x, cl, _ := bigCanon(g.relabel(p))
				c.Evals(1)
				c.Nontrivial(1)
				if cl != "" || x != base {
					bc := bigCanonCase{Name: "regular-union:" + name, N: g.n, Edges: edges, Perm: p}
					c.Check(func() *Failure { return checkBigInvariance(bc) })
				}
			}
		}
	})
}

func c01Unions(c *Ctx) {
	maxN, lcg := 13, 30
	if c.Thorough() {
		maxN, lcg = 16, 300
	}
	gs := mixedUnions(maxN)
	names := make([]string, 0, len(gs))
	for k := range gs {
		names = append(names, k)
	}
	sortStrings(names)
	c.parFor(int64(len(names)), 1, func(lo, hi int64) {
		for _, name := range names[lo:hi] {
			g := gs[name]
			base, cl, what := bigCanon(g)
			edges := g.edgeList()
			if cl != "" {
				c.Fail(&Failure{Class: cl, What: name + ": " + what, Kind: "canon-big", Replay: bigCanonCase{Name: name, N: g.n, Edges: edges, Perm: genSigma(g.n)}})
				continue
			}
			for _, p := range relabelBattery(g.n, true, lcg) {
				x, cl, _ := bigCanon(g.relabel(p))
				c.Evals(1)
				if cl != "" || x != base {
					bc := bigCanonCase{Name: "union:" + name, N: g.n, Edges: edges, Perm: p}
					c.Check(func() *Failure { return checkBigInvariance(bc) })
				}
			}
		}
	})
	c.Nontrivial(int64(len(names)))
	c.SetCount("mixed_union_graphs", int64(len(names)))
}
