package main

// C02 on trees with 13-40 vertices: the orbit partition of Aut(T) is known without any search (two vertices are
// in the same orbit iff the tree rooted at them has the same AHU code) and |Aut(T)| is a product of factorials.

import (
	"fmt"
	"math/big"
	"sort"
	"strings"

	"github.com/Tom-Johnston/mamba/disjoint"
	"github.com/Tom-Johnston/mamba/graph"
)

func ahuCode(nb [][]int, v, parent int) string {
	var cs []string
	for _, u := range nb[v] {
		if u != parent {
			cs = append(cs, ahuCode(nb, u, v))
		}
	}
	sort.Strings(cs)
	return "(" + strings.Join(cs, "") + ")"
}

// ahuAut returns |Aut| of the tree rooted at v (automorphisms fixing the root).
func ahuAut(nb [][]int, v, parent int) *big.Int {
	r := big.NewInt(1)
	mult := map[string]int{}
	for _, u := range nb[v] {
		if u != parent {
			r.Mul(r, ahuAut(nb, u, v))
			mult[ahuCode(nb, u, v)]++
		}
	}
	for _, m := range mult {
		for i := 2; i <= m; i++ {
			r.Mul(r, big.NewInt(int64(i)))
		}
	}
	return r
}

func treeCentres(nb [][]int) []int {
	n := len(nb)
	deg := make([]int, n)
	var leaves []int
	for i := range nb {
		deg[i] = len(nb[i])
		if deg[i] <= 1 {
			leaves = append(leaves, i)
		}
	}
	left := n
	for left > 2 {
		var next []int
		for _, l := range leaves {
			left--
			for _, u := range nb[l] {
				deg[u]--
				if deg[u] == 1 {
					next = append(next, u)
				}
			}
			deg[l] = 0
		}
		leaves = next
	}
	return leaves
}

func treeAutOrder(nb [][]int) *big.Int {
	c := treeCentres(nb)
	if len(c) == 1 {
		return ahuAut(nb, c[0], -1)
	}
	a, b := c[0], c[1]
	r := new(big.Int).Mul(ahuAut(nb, a, b), ahuAut(nb, b, a))
	if ahuCode(nb, a, b) == ahuCode(nb, b, a) {
		r.Mul(r, big.NewInt(2))
	}
	return r
}

type treeCase struct {
	Name  string   `json:"name"`
	N     int      `json:"n"`
	Edges [][2]int `json:"edges"`
	Rep   string   `json:"rep"`
}

func evalTreeAut(tc treeCase) *Failure {
	g := &EG{N: tc.N, Edges: tc.Edges}
	g.norm()
	nb := g.adjacency()
	n := g.N
	mk := func(cl, what string) *Failure {
		return &Failure{Class: "canonical-aut/" + cl + "/tree", What: fmt.Sprintf("%s %s (n=%d): %s", tc.Rep, tc.Name, n, what), Kind: "tree-aut", Replay: tc}
	}
	var perm []int
	var ds disjoint.Set
	var gens [][]int
	if msg, p := try(func() { perm, ds, gens = graph.CanonicalIsomorphFull(libGraphFromEG(g, tc.Rep), nil) }); p {
		return mk("panic", msg)
	}
	if !isPerm(perm, n) {
		return mk("not-a-permutation", fmt.Sprint(perm))
	}
	lab, e := orbitLabels(ds, n)
	if e != "" {
		return mk("orbits-malformed", e)
	}
	codes := make([]string, n)
	first := map[string]int{}
	want := make([]int, n)
	for v := 0; v < n; v++ {
		codes[v] = ahuCode(nb, v, -1)
		if _, ok := first[codes[v]]; !ok {
			first[codes[v]] = v
		}
		want[v] = first[codes[v]]
	}
	if !intsEq(lab, want) {
		return mk("orbits", fmt.Sprintf("returned orbit partition %v, orbits of the tree are %v", lab, want))
	}
	has := map[[2]int]bool{}
	for _, ed := range g.Edges {
		has[ed] = true
	}
	for _, gen := range gens {
		if !isPerm(gen, n) {
			return mk("generator-not-a-permutation", fmt.Sprint(gen))
		}
		for _, ed := range g.Edges {
			a, b := gen[ed[0]], gen[ed[1]]
			if a > b {
				a, b = b, a
			}
			if !has[[2]int{a, b}] {
				return mk("generator-not-automorphism", fmt.Sprint(gen))
			}
		}
	}
	order := treeAutOrder(nb)
	if order.IsInt64() && order.Int64() <= 20000 {
		size, _ := groupClosure(n, copyGens(gens), int(order.Int64()))
		if int64(size) != order.Int64() {
			return mk("generators-do-not-generate-aut", fmt.Sprintf("generators generate %d elements, |Aut(T)| = %s", size, order))
		}
	}
	return nil
}

func c02Trees(c *Ctx) {
	var cases []treeCase
	add := func(name string, g *EG) {
		g.norm()
		for pi, p := range [][]int{nil, lcgPerm(g.N, uint64(g.N)*13+1), lcgPerm(g.N, uint64(g.N)*29+7)} {
			h := g
			if p != nil {
				h = egRelabel(g, p)
			}
			rep := "dense"
			if pi == 1 {
				rep = "sparse"
			}
			cases = append(cases, treeCase{Name: fmt.Sprintf("%s/relabel%d", name, pi), N: h.N, Edges: h.Edges, Rep: rep})
		}
	}
	sizes := []int{13, 14, 16, 20, 21, 24, 33, 40}
	if c.Thorough() {
		sizes = append(sizes, 50, 64, 65, 80)
	}
	for _, n := range sizes {
		path := &EG{N: n}
		bt := &EG{N: n}
		cat := &EG{N: n}
		for i := 1; i < n; i++ {
			egAdd(path, i-1, i)
			egAdd(bt, i, (i-1)/2)
		}
		sp := (n + 1) / 2
		for i := 1; i < sp; i++ {
			egAdd(cat, i-1, i)
		}
		for i := sp; i < n; i++ {
			egAdd(cat, i-sp, i)
		}
		add(fmt.Sprintf("path%d", n), path)
		add(fmt.Sprintf("binary-tree%d", n), bt)
		add(fmt.Sprintf("caterpillar%d", n), cat)
		// spider: legs of lengths 1,1,2,2,3,... from a centre
		spd := &EG{N: n}
		v, leg := 1, 1
		for v < n {
			prev := 0
			for k := 0; k < leg/2+1 && v < n; k++ {
				egAdd(spd, prev, v)
				prev = v
				v++
			}
			leg++
		}
		add(fmt.Sprintf("spider%d", n), spd)
		// trees from LCG Pruefer codes
		seeds := 6
		if c.Thorough() {
			seeds = 60
		}
		for s := 0; s < seeds; s++ {
			x := uint64(s)*1103515245 + uint64(n)
			code := make([]int, n-2)
			for i := range code {
				x = x*6364136223846793005 + 1442695040888963407
				code[i] = int((x >> 33) % uint64(n/2+1+s%3)) // few distinct labels: many leaves, symmetric trees
			}
			add(fmt.Sprintf("prufer%d-%d", n, s), refPruferDecode(code))
		}
	}
	c.parFor(int64(len(cases)), 1, func(lo, hi int64) {
		for _, tc := range cases[lo:hi] {
			tc := tc
			c.Check(func() *Failure { return evalTreeAut(tc) })
			c.Nontrivial(1)
		}
	})
	c.SetCount("tree_cases", int64(len(cases)))
}
