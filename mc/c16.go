package main

// C16: binomials exact-or-panic; Rank / Unrank inverse bijections in colex order.

import (
	"encoding/json"
	"fmt"
	"math"
	"math/big"
	"math/bits"
	"sync"
	"sync/atomic"
	"time"

	"github.com/Tom-Johnston/mamba/comb"
	"github.com/Tom-Johnston/mamba/itertools"
)

var bigMaxU64 = new(big.Int).SetUint64(math.MaxUint64)
var bigMaxInt = big.NewInt(math.MaxInt64)

type coeffCase struct {
	Fn string `json:"fn"` // CoeffUint64 | Coeff
	N  uint64 `json:"n"`
	K  uint64 `json:"k"`
}

// checkCoeffAgainst evaluates CoeffUint64(n,k) against the exact value c (as big.Int).
func checkCoeffU64(n, k uint64, c *big.Int) *Failure {
	cc := coeffCase{"CoeffUint64", n, k}
	var got uint64
	msg, p := try(func() { got = comb.CoeffUint64(n, k) })
	kk := k
	if k <= n && n-k < kk {
		kk = n - k
	}
	mustReturn := false
	if c.Cmp(bigMaxU64) <= 0 {
		prod := new(big.Int).Mul(c, new(big.Int).SetUint64(kk))
		if prod.Cmp(bigMaxU64) <= 0 {
			mustReturn = true
		}
	}
	cls := fmt.Sprintf("comb/CoeffUint64/k=%d", kk)
	if kk > 31 {
		cls = "comb/CoeffUint64/k>31"
	}
	if p {
		// outside the must-return range any panic is the permitted refusal (the property fixes no message)
		if mustReturn {
			return &Failure{Class: cls + "/refuses-representable", What: fmt.Sprintf("CoeffUint64(%d,%d) panics (%s) although C(n,k)*min(k,n-k) = %s*%d fits uint64", n, k, msg, c, kk), Kind: "coeff", Replay: cc}
		}
		return nil
	}
	if !c.IsUint64() || c.Uint64() != got {
		return &Failure{Class: cls + "/wrong-value", What: fmt.Sprintf("CoeffUint64(%d,%d) = %d, exact value %s", n, k, got, c), Kind: "coeff", Replay: cc}
	}
	return nil
}

func checkCoeffInt(n, k int, c *big.Int) *Failure {
	cc := coeffCase{"Coeff", uint64(n), uint64(k)}
	var got int
	msg, p := try(func() { got = comb.Coeff(n, k) })
	kk := k
	if k <= n && n-k < kk {
		kk = n - k
	}
	mustReturn := false
	if prod := new(big.Int).Mul(c, big.NewInt(int64(kk))); prod.Cmp(bigMaxInt) <= 0 && c.Cmp(bigMaxInt) <= 0 {
		mustReturn = true
	}
	cls := fmt.Sprintf("comb/Coeff/k=%d", kk)
	if p {
		if mustReturn {
			return &Failure{Class: cls + "/refuses-representable", What: fmt.Sprintf("Coeff(%d,%d) panics (%s) although C(n,k)*min(k,n-k) fits int", n, k, msg), Kind: "coeff", Replay: cc}
		}
		return nil
	}
	if !c.IsInt64() || c.Int64() != int64(got) {
		return &Failure{Class: cls + "/wrong-value", What: fmt.Sprintf("Coeff(%d,%d) = %d, exact value %s", n, k, got, c), Kind: "coeff", Replay: cc}
	}
	return nil
}

func bigBinom(n, k uint64) *big.Int {
	if k > n {
		return big.NewInt(0)
	}
	if n-k < k {
		k = n - k
	}
	r := big.NewInt(1)
	for i := uint64(1); i <= k; i++ {
		r.Mul(r, new(big.Int).SetUint64(n-k+i))
		r.Div(r, new(big.Int).SetUint64(i))
	}
	return r
}

// thresholdFor returns the largest n with C(n,k)*k <= 2^64-1 (k >= 2), found by doubling + bisection on big binomials.
func thresholdFor(k uint64) uint64 {
	fits := func(n uint64) bool {
		p := new(big.Int).Mul(bigBinom(n, k), new(big.Int).SetUint64(k))
		return p.Cmp(bigMaxU64) <= 0
	}
	lo, hi := 2*k, 2*k
	if !fits(lo) {
		return 0
	}
	for fits(hi) {
		lo = hi
		if hi > math.MaxUint64/2 {
			return math.MaxUint64
		}
		hi *= 2
	}
	for hi-lo > 1 {
		mid := lo + (hi-lo)/2
		if fits(mid) {
			lo = mid
		} else {
			hi = mid
		}
	}
	return lo
}

func c16Coeff(c *Ctx) {
	// rows 0..40 x all k (covers the built-in table and k > n), both functions
	for n := uint64(0); n <= 70; n++ {
		for k := uint64(0); k <= n+2; k++ {
			b := bigBinom(n, k)
			c.Check(func() *Failure { return checkCoeffU64(n, k, b) })
			c.Check(func() *Failure { return checkCoeffInt(int(n), int(k), b) })
			c.Nontrivial(1)
		}
	}
	// Coeff argument conventions
	c.Check(func() *Failure {
		if _, p := try(func() { comb.Coeff(-1, 0) }); !p {
			return &Failure{Class: "comb/Coeff/negative-n-accepted", What: "Coeff(-1,0) does not panic", Kind: "coeff-conv"}
		}
		var v int
		if _, p := try(func() { v = comb.Coeff(5, -1) }); p || v != 0 {
			return &Failure{Class: "comb/Coeff/negative-k", What: "Coeff(5,-1) should be 0", Kind: "coeff-conv"}
		}
		return nil
	})
	// every k >= 3: every n from 0 to T_k+64 in both argument forms
	maxK := uint64(40)
	var mu sync.Mutex
	thresholds := map[string]uint64{}
	ks := []uint64{}
	for k := uint64(3); k <= maxK; k++ {
		ks = append(ks, k)
	}
	c.parFor(int64(len(ks)), 1, func(lo, hi int64) {
		for _, k := range ks[lo:hi] {
			T := thresholdFor(k)
			mu.Lock()
			thresholds[fmt.Sprint(k)] = T
			mu.Unlock()
			top := T + 64
			if T == 0 {
				top = 2*k + 64
			}
			// incremental exact binomial C(n,k)
			cur := big.NewInt(0)
			for n := uint64(0); n <= top; n++ {
				if n == k {
					cur.SetInt64(1)
				} else if n > k {
					cur.Mul(cur, new(big.Int).SetUint64(n))
					cur.Div(cur, new(big.Int).SetUint64(n-k))
				}
				// skip the deep interior for k = 3 in quick mode: every n within 4096 of 0, of each power of two and of T
				if k == 3 && !c.Thorough() && !nearInteresting(n, T) {
					continue
				}
				nn, val := n, new(big.Int).Set(cur)
				c.Check(func() *Failure { return checkCoeffU64(nn, k, val) })
				if nn >= k {
					c.Check(func() *Failure { return checkCoeffU64(nn, nn-k, val) })
				}
				if nn <= math.MaxInt64 {
					c.Check(func() *Failure { return checkCoeffInt(int(nn), int(k), val) })
				}
				c.Nontrivial(1)
			}
		}
	})
	c.Bound("oracle_thresholds_T_k(largest n with C(n,k)*k < 2^64)", thresholds)
	// k = 2 with a 128-bit oracle
	check2 := func(n uint64) {
		hi, lo := bits.Mul64(n, n-1)
		lo = lo>>1 | hi<<63
		hi >>= 1
		v := new(big.Int).SetUint64(hi)
		v.Lsh(v, 64).Add(v, new(big.Int).SetUint64(lo))
		c.Check(func() *Failure { return checkCoeffU64(n, 2, v) })
		c.Check(func() *Failure { return checkCoeffU64(n, n-2, v) })
	}
	if c.Thorough() {
		// all n <= 2^32+64: fast path without big.Int
		total := int64(1)<<32 + 64
		c.parFor(total, 1<<20, func(lo, hi int64) {
			for n := uint64(lo); n < uint64(hi); n++ {
				if n < 2 {
					continue
				}
				h, l := bits.Mul64(n, n-1)
				l = l>>1 | h<<63
				h >>= 1
				var got uint64
				_, p := try(func() { got = comb.CoeffUint64(n, 2) })
				fits := n <= 1<<32 // C(n,2)*2 = n(n-1) < 2^64
				if (p && fits) || (!p && (h != 0 || got != l)) {
					check2(n)
				}
			}
			c.Evals(hi - lo)
		})
		c.Nontrivial(total)
	}
	for j := uint(1); j <= 63; j++ {
		for d := int64(-2048); d <= 2048; d++ {
			n := uint64(int64(uint64(1)<<j) + d)
			if n >= 2 {
				check2(n)
				c.Nontrivial(1)
			}
		}
	}
	// k in {0,1} and far-region windows
	for j := uint(0); j <= 64; j++ {
		for _, base := range []uint64{1 << (j % 64), 3 << (j % 62)} {
			if j == 64 {
				base = math.MaxUint64 - 64
			}
			for d := uint64(0); d <= 128; d++ {
				n := base - 64 + d
				if base < 64 {
					n = base + d
				}
				nn := n
				c.Check(func() *Failure { return checkCoeffU64(nn, 0, big.NewInt(1)) })
				c.Check(func() *Failure { return checkCoeffU64(nn, 1, new(big.Int).SetUint64(nn)) })
				c.Check(func() *Failure { return checkCoeffU64(nn, nn, big.NewInt(1)) })
				if nn >= 1 {
					c.Check(func() *Failure { return checkCoeffU64(nn, nn-1, new(big.Int).SetUint64(nn)) })
				}
				if nn+1 != 0 {
					c.Check(func() *Failure { return checkCoeffU64(nn, nn+1, big.NewInt(0)) })
				}
				for _, k := range []uint64{5, 17, 31, 32, 33, 100} {
					if nn > 1<<20 && k < nn/2 {
						k := k
						// exact value is astronomically large: must panic; compute exactly anyway for n < 2^40, else assert overflow
						if nn < 1<<40 {
							v := bigBinom(nn, k)
							c.Check(func() *Failure { return checkCoeffU64(nn, k, v) })
						} else {
							c.Check(func() *Failure {
								var got uint64
								if _, p := try(func() { got = comb.CoeffUint64(nn, k) }); !p {
									return &Failure{Class: fmt.Sprintf("comb/CoeffUint64/k=%d/wrong-value", k), What: fmt.Sprintf("CoeffUint64(%d,%d) = %d but the value exceeds 2^64", nn, k, got), Kind: "coeff", Replay: coeffCase{"CoeffUint64", nn, k}}
								}
								return nil
							})
						}
					}
				}
			}
		}
	}
	// Coeffs = Pascal's triangle for all rows representable in an int
	for n := 0; n <= 66; n++ {
		nn := n
		c.Check(func() *Failure {
			var rows [][]int
			if msg, p := try(func() { rows = comb.Coeffs(nn) }); p {
				return &Failure{Class: "comb/Coeffs/panic", What: fmt.Sprintf("Coeffs(%d): %s", nn, msg), Kind: "coeffs", Replay: nn}
			}
			if len(rows) != nn+1 {
				return &Failure{Class: "comb/Coeffs/shape", What: fmt.Sprintf("Coeffs(%d) has %d rows", nn, len(rows)), Kind: "coeffs", Replay: nn}
			}
			for m, row := range rows {
				if len(row) != m/2+1 {
					return &Failure{Class: "comb/Coeffs/shape", What: fmt.Sprintf("Coeffs(%d)[%d] has %d entries", nn, m, len(row)), Kind: "coeffs", Replay: nn}
				}
				for k, v := range row {
					if w := bigBinom(uint64(m), uint64(k)); !w.IsInt64() || w.Int64() != int64(v) {
						return &Failure{Class: "comb/Coeffs/wrong-value", What: fmt.Sprintf("Coeffs(%d)[%d][%d] = %d want %s", nn, m, k, v, w), Kind: "coeffs", Replay: nn}
					}
				}
			}
			// the triangle belongs to the caller: overwrite every entry (over full capacity), then ask again for this
			// and the next size - the new triangles must be Pascal's triangle all the same
			for _, row := range rows {
				row = row[:cap(row)]
				for i := range row {
					row[i] = -7
				}
			}
			for _, n2 := range []int{nn, nn + 1, nn / 2} {
				if n2 > 66 {
					continue
				}
				var again [][]int
				if msg, p := try(func() { again = comb.Coeffs(n2) }); p {
					return &Failure{Class: "comb/Coeffs/panic", What: fmt.Sprintf("Coeffs(%d) after an earlier result was overwritten: %s", n2, msg), Kind: "coeffs", Replay: nn}
				}
				for m, row := range again {
					for k, v := range row {
						if w := bigBinom(uint64(m), uint64(k)); len(again) != n2+1 || !w.IsInt64() || w.Int64() != int64(v) {
							return &Failure{Class: "comb/Coeffs/result-shares-storage-with-earlier-result", What: fmt.Sprintf("after the caller overwrote the triangle returned by Coeffs(%d), Coeffs(%d)[%d][%d] = %d want %s", nn, n2, m, k, v, w), Kind: "coeffs", Replay: nn}
						}
					}
				}
			}
			return nil
		})
	}
	c.Sample("coeff", coeffCase{"CoeffUint64", 3329023, 3})
}

func nearInteresting(n, T uint64) bool {
	if n < 4096 || (n+4096 > T && n < T+4096) {
		return true
	}
	p := uint64(1) << uint(bits.Len64(n)-1)
	return n-p < 2048 || 2*p-n < 2048 || n%997 == 0
}

// ---- Rank / Unrank ----

type rankCase struct {
	Fn   string `json:"fn"`
	Comb []int  `json:"comb,omitempty"`
	R    int    `json:"rank,omitempty"`
	K    int    `json:"k,omitempty"`
}

// unrankOracle returns the k-subset with colex rank r (greedy, big arithmetic), plus the number of steps the
// library's linear walk would need and whether one of its intermediate int products would overflow.
func unrankOracle(r int, k int) (cmb []int, steps float64, overflows bool) {
	cmb = make([]int, k)
	m := big.NewInt(int64(r))
	for i := k - 1; i >= 0; i-- {
		kk := uint64(i + 1)
		// largest L with C(L,kk) <= m
		lo, hi := uint64(i), uint64(i)+1 // C(i, i+1) = 0 <= m
		for bigBinom(hi, kk).Cmp(m) <= 0 {
			lo = hi
			hi *= 2
			if hi < lo {
				hi = math.MaxUint64
				break
			}
		}
		for hi-lo > 1 {
			mid := lo + (hi-lo)/2
			if bigBinom(mid, kk).Cmp(m) <= 0 {
				lo = mid
			} else {
				hi = mid
			}
		}
		L := lo
		cmb[i] = int(L)
		steps += float64(L) - float64(i)
		// the walk multiplies b = C(l,kk) <= m by (l+1) for l up to L, then C(L+1,kk) by (L-i)
		if L >= kk {
			p1 := new(big.Int).Mul(bigBinom(L, kk), new(big.Int).SetUint64(L+1))
			p2 := new(big.Int).Mul(bigBinom(L+1, kk), new(big.Int).SetUint64(L-uint64(i)))
			if p1.Cmp(bigMaxInt) > 0 || p2.Cmp(bigMaxInt) > 0 {
				overflows = true
			}
		}
		m.Sub(m, bigBinom(L, kk))
	}
	return cmb, steps, overflows
}

const unrankStepBudget = 2e7

var unrankHangs [2]int64 // calls still running at their deadline, by failure class
var unrankNotEvaluated int64

// checkUnrank evaluates Unrank(r,k); hang-prone inputs run under a deadline in a goroutine.
func checkUnrank(r, k int, deadline time.Duration) *Failure {
	return checkUnrankBudget(r, k, deadline, unrankStepBudget)
}

func checkUnrankBudget(r, k int, deadline time.Duration, budget float64) *Failure {
	want, steps, overflows := unrankOracle(r, k)
	rc := rankCase{Fn: "Unrank", R: r, K: k}
	if steps > budget {
		return nil // a linear walk longer than the stated step bound: not evaluated
	}
	hcls, hidx := "comb/Unrank/does-not-terminate", 0
	if overflows {
		hcls, hidx = "comb/Unrank/intermediate-product-overflows-int", 1
	}
	if atomic.LoadInt64(&unrankHangs[hidx]) >= 6 {
		// each hanging call leaks a spinning goroutine: after six reported hangs of this kind stop feeding it
		atomic.AddInt64(&unrankNotEvaluated, 1)
		return nil
	}
	if min := 20*time.Second + time.Duration(steps)*time.Microsecond; deadline < min {
		deadline = min // >= 100x the time the walk needs, so a loaded machine cannot trip it
	}
	type res struct {
		got []int
		msg string
		pan bool
	}
	ch := make(chan res, 1)
	go func() {
		var got []int
		msg, p := try(func() { got = comb.Unrank(r, k) })
		ch <- res{got, msg, p}
	}()
	var out res
	select {
	case out = <-ch:
	case <-time.After(deadline):
		atomic.AddInt64(&unrankHangs[hidx], 1)
		cls := hcls
		return &Failure{Class: cls, What: fmt.Sprintf("Unrank(%d,%d) still running after %v (expected %v; the correct walk is %.0f steps)", r, k, deadline, want, steps), Kind: "unrank", Replay: rc, NoRepro: true}
	}
	cls := "comb/Unrank/wrong-result"
	if overflows {
		cls = "comb/Unrank/intermediate-product-overflows-int"
	}
	if out.pan {
		return &Failure{Class: cls, What: fmt.Sprintf("Unrank(%d,%d) panics: %s", r, k, out.msg), Kind: "unrank", Replay: rc}
	}
	if !intsEq(out.got, want) {
		return &Failure{Class: cls, What: fmt.Sprintf("Unrank(%d,%d) = %v want %v", r, k, out.got, want), Kind: "unrank", Replay: rc}
	}
	// Rank inverts it - or refuses, which it may do only when one of its terms C(v,i+1) lies outside the range
	// in which Coeff has to answer (C(v,i+1)*min(i+1,v-i-1) no longer fits an int)
	var back int
	msg, p := try(func() { back = comb.Rank(out.got) })
	if p {
		mayRefuse := false
		for i, v := range out.got {
			kk := uint64(i + 1)
			if uint64(v) >= kk && uint64(v)-kk < kk {
				kk = uint64(v) - kk
			}
			if new(big.Int).Mul(bigBinom(uint64(v), uint64(i+1)), new(big.Int).SetUint64(kk)).Cmp(bigMaxInt) > 0 {
				mayRefuse = true
			}
		}
		if mayRefuse {
			return nil
		}
		return &Failure{Class: "comb/Rank/refuses-representable", What: fmt.Sprintf("Rank(Unrank(%d,%d)=%v) panics (%s) although every term is in the range Coeff must answer", r, k, out.got, msg), Kind: "unrank", Replay: rc}
	}
	if back != r {
		return &Failure{Class: "comb/Rank/does-not-invert-Unrank", What: fmt.Sprintf("Rank(Unrank(%d,%d)=%v) = %d", r, k, out.got, back), Kind: "unrank", Replay: rc}
	}
	return nil
}

func checkRankSubset(cmb []int, pos int) *Failure {
	rc := rankCase{Fn: "Rank", Comb: cmb}
	var r int
	if msg, p := try(func() { r = comb.Rank(cmb) }); p {
		return &Failure{Class: "comb/Rank/panic", What: fmt.Sprintf("Rank(%v): %s", cmb, msg), Kind: "rank", Replay: rc}
	}
	if pos >= 0 && r != pos {
		return &Failure{Class: "comb/Rank/not-colex-position", What: fmt.Sprintf("Rank(%v) = %d but it is subset number %d in CombinationsColex order", cmb, r, pos), Kind: "rank", Replay: rc}
	}
	want := big.NewInt(0)
	for i, v := range cmb {
		want.Add(want, bigBinom(uint64(v), uint64(i+1)))
	}
	if !want.IsInt64() || want.Int64() != int64(r) {
		return &Failure{Class: "comb/Rank/wrong-value", What: fmt.Sprintf("Rank(%v) = %d want %s", cmb, r, want), Kind: "rank", Replay: rc}
	}
	var back []int
	if msg, p := try(func() { back = comb.Unrank(r, len(cmb)) }); p || !intsEq(back, cmb) {
		return &Failure{Class: "comb/Unrank/does-not-invert-Rank", What: fmt.Sprintf("Unrank(Rank(%v)=%d) = %v %s", cmb, r, back, msg), Kind: "rank", Replay: rc}
	}
	return nil
}

func c16Rank(c *Ctx) {
	N := 16
	if c.Thorough() {
		N = 20
	}
	c.Bound("rank_all_subsets_of_[0,N)", N)
	// all k-subsets of [0,N) in CombinationsColex order: Rank = position
	type job struct{ n, k int }
	var jobs []job
	for k := 0; k <= N; k++ {
		jobs = append(jobs, job{N, k})
	}
	for n := 0; n < N; n++ { // smaller ground sets give the same prefix of the order; check a few explicitly
		for k := 0; k <= n && n <= 8; k++ {
			jobs = append(jobs, job{n, k})
		}
	}
	c.parFor(int64(len(jobs)), 1, func(lo, hi int64) {
		for _, j := range jobs[lo:hi] {
			it := itertools.CombinationsColex(j.n, j.k)
			pos := 0
			for it.Next() {
				cmb := append([]int{}, it.Value()...)
				p := pos
				c.Check(func() *Failure { return checkRankSubset(cmb, p) })
				if j.k >= 2 {
					c.Nontrivial(1)
				}
				pos++
				if pos > 1<<21 {
					break
				}
			}
			if w := bigBinom(uint64(j.n), uint64(j.k)); w.IsInt64() && int64(pos) != w.Int64() && pos <= 1<<21 {
				c.Fail(&Failure{Class: "itertools/CombinationsColex/count", What: fmt.Sprintf("CombinationsColex(%d,%d) yields %d subsets", j.n, j.k, pos), Kind: "colex-count"})
			}
		}
	})
	// every rank below a bound for small k
	maxR := 300000
	if c.Thorough() {
		maxR = 2000000
	}
	c.Bound("unrank_all_ranks_below", maxR)
	for k := 1; k <= 6; k++ {
		top := maxR
		if k == 1 {
			top = 20000 // k = 1 walks r steps per call
		}
		c.parFor(int64(top), 512, func(lo, hi int64) {
			for r := lo; r < hi; r++ {
				rr, kk := int(r), k
				c.Check(func() *Failure { return checkUnrank(rr, kk, 120*time.Second) })
				c.Nontrivial(1)
			}
		})
	}
	// k = 0
	c.Check(func() *Failure {
		var got []int
		if msg, p := try(func() { got = comb.Unrank(0, 0) }); p || len(got) != 0 {
			return &Failure{Class: "comb/Unrank/k=0", What: fmt.Sprintf("Unrank(0,0) = %v %s", got, msg), Kind: "unrank", Replay: rankCase{Fn: "Unrank"}}
		}
		if r := comb.Rank([]int{}); r != 0 {
			return &Failure{Class: "comb/Rank/empty", What: fmt.Sprint("Rank([]) = ", r), Kind: "rank", Replay: rankCase{Fn: "Rank"}}
		}
		return nil
	})
	// boundary ranks C(l,k)-1, C(l,k), C(l,k)+1
	for k := 1; k <= 12; k++ {
		var ls []uint64
		for l := uint64(k); l <= 400; l++ {
			ls = append(ls, l)
		}
		for j := uint(9); j <= 40; j++ {
			for d := int64(-1); d <= 1; d++ {
				ls = append(ls, uint64(int64(1)<<j+d))
			}
		}
		for _, l := range ls {
			b := bigBinom(l, uint64(k))
			if !b.IsInt64() {
				continue
			}
			for d := int64(-1); d <= 1; d++ {
				r := b.Int64() + d
				if r < 0 {
					continue
				}
				_, steps, ov := unrankOracle(int(r), k)
				if ov || steps > unrankStepBudget {
					continue // the overflow class is probed separately below (each probe may leak a spinning goroutine)
				}
				rr, kk := int(r), k
				c.Check(func() *Failure { return checkUnrank(rr, kk, 120*time.Second) })
				c.Nontrivial(1)
			}
		}
	}
	// ranks whose walk overflows an int product: a fixed small probe set, run concurrently under one deadline
	probes := []rankCase{{R: math.MaxInt64, K: 1}, {R: math.MaxInt64, K: 2}, {R: math.MaxInt64, K: 3}, {R: math.MaxInt64, K: 7}, {R: 1 << 40, K: 1}, {R: 1 << 50, K: 2}, {R: math.MaxInt64, K: 30}, {R: math.MaxInt64, K: 64}}
	var wg sync.WaitGroup
	for _, p := range probes {
		wg.Add(1)
		p := p
		go func() {
			defer wg.Done()
			_, steps, ov := unrankOracle(p.R, p.K)
			c.Evals(1)
			_ = ov
			if steps > unrankStepBudget {
				c.Count("unrank_probes_skipped_linear_walk_too_long", 1)
				return
			}
			f := checkUnrank(p.R, p.K, 6*time.Second)
			if f != nil {
				if !f.NoRepro {
					if g := checkUnrank(p.R, p.K, 6*time.Second); g == nil || g.Class != f.Class {
						c.HarnessError("non-reproducible Unrank failure for %v", p)
						return
					}
				}
				c.Fail(f)
			}
		}()
	}
	wg.Wait()
	// the top of the int range: r = MaxInt>>s (and its neighbours) for every k whose walk stays inside the step bound
	type rk struct{ r, k int }
	var tops []rk
	for k := 1; k <= 70; k++ {
		for sh := 0; sh <= 40; sh++ {
			base := math.MaxInt64 >> uint(sh)
			for _, r := range []int{base, base - 1, base/3*2 + 1} {
				if _, steps, _ := unrankOracle(r, k); steps <= unrankStepBudget {
					tops = append(tops, rk{r, k})
				}
			}
		}
	}
	c.Count("unrank_top_of_range_cases", int64(len(tops)))
	c.parFor(int64(len(tops)), 8, func(lo, hi int64) {
		for _, t := range tops[lo:hi] {
			t := t
			c.Check(func() *Failure { return checkUnrank(t.r, t.k, 0) })
			c.Nontrivial(1)
		}
	})
	// k = 2 far beyond 2^53 (where float64 stops being exact): r around C(L,2) for L = 2^j+1; these walks are
	// 7e7..1.4e8 steps (2^31 in thorough), beyond the general step bound, so they are a short explicit list
	{
		js := []int{26, 27}
		if c.Thorough() {
			js = []int{26, 27, 28, 29, 30, 31}
		}
		var lw []rk
		for _, j := range js {
			L := 1<<uint(j) + 1
			base := L * (L - 1) / 2
			for _, d := range []int{-2, -1, 0, 1} {
				lw = append(lw, rk{base + d, 2})
			}
		}
		c.parFor(int64(len(lw)), 1, func(lo, hi int64) {
			for _, t := range lw[lo:hi] {
				t := t
				c.Check(func() *Failure { return checkUnrankBudget(t.r, t.k, 0, 5e9) })
				c.Nontrivial(1)
			}
		})
		c.SetCount("unrank_long_walk_probes_k2", int64(len(lw)))
	}
	c.Count("unrank_calls_not_evaluated_after_six_hangs", atomic.LoadInt64(&unrankNotEvaluated))
	// Rank on subsets with large elements: exact, or the documented overflow panic - never a wrong value
	var bigSets [][]int
	for _, a := range []int{65535, 65536, 3037000498, 3037000499, 3037000500, 3037000501, 4294967295, 4294967296, 4294967297, 6074001000, 6074001001, 1 << 40} {
		for d1 := 1; d1 <= 2; d1++ {
			bigSets = append(bigSets, []int{a, a + d1}, []int{0, a}, []int{a - 1, a, a + 1}, []int{1, a, a + d1})
		}
	}
	for s := 0; s <= 70; s++ {
		for k := 1; k <= 45; k += 2 {
			run := make([]int, k)
			for i := range run {
				run[i] = s + i
			}
			bigSets = append(bigSets, run)
			gap := make([]int, k)
			for i := range gap {
				gap[i] = s + 2*i
			}
			bigSets = append(bigSets, gap)
		}
	}
	for _, set := range bigSets {
		set := set
		c.Check(func() *Failure {
			want := big.NewInt(0)
			for i, v := range set {
				want.Add(want, bigBinom(uint64(v), uint64(i+1)))
			}
			var got int
			msg, p := try(func() { got = comb.Rank(set) })
			rc := rankCase{Fn: "Rank", Comb: set}
			if p {
				// a panic is the documented refusal; it is only wrong when every term's product and the sum fit comfortably
				fits := want.IsInt64()
				for i, v := range set {
					t := new(big.Int).Mul(bigBinom(uint64(v), uint64(i+1)), big.NewInt(int64(i+1)))
					if !t.IsUint64() {
						fits = false
					}
				}
				if fits {
					return &Failure{Class: "comb/Rank/refuses-representable", What: fmt.Sprintf("Rank(%v) panics (%s) although the rank %s and every term fit", set, msg, want), Kind: "rank", Replay: rc}
				}
				return nil
			}
			if !want.IsInt64() || want.Int64() != int64(got) {
				return &Failure{Class: "comb/Rank/wrong-value", What: fmt.Sprintf("Rank(%v) = %d, exact value %s", set, got, want), Kind: "rank-big", Replay: rc}
			}
			return nil
		})
		c.Nontrivial(1)
	}
	c.SetCount("rank_large_element_sets", int64(len(bigSets)))
	c.Sample("rank", rankCase{Fn: "Rank", Comb: []int{1, 4, 9}})
	c.Sample("unrank", rankCase{Fn: "Unrank", R: 123456, K: 4})
}

// c16Histories: the functions are pure, so a result must not depend on earlier calls (a memo table or a
// "last result" cache would make it so). Every sequence of calls of length <= 3 (4 thorough) over a small
// alphabet is executed sequentially in one goroutine and every result compared with the oracle.
type callStep struct {
	Fn string `json:"fn"`
	A  int    `json:"a"`
	B  int    `json:"b"`
}

func evalCall(st callStep) (string, string) {
	var got, want string
	msg, p := try(func() {
		switch st.Fn {
		case "Unrank":
			got = fmt.Sprint(comb.Unrank(st.A, st.B))
			w, _, _ := unrankOracle(st.A, st.B)
			want = fmt.Sprint(w)
		case "Coeff":
			got = fmt.Sprint(comb.Coeff(st.A, st.B))
			want = bigBinom(uint64(st.A), uint64(st.B)).String()
		case "Rank":
			// the k-subset {A, A+1, .., A+B-1}
			s := make([]int, st.B)
			wv := big.NewInt(0)
			for i := range s {
				s[i] = st.A + i
				wv.Add(wv, bigBinom(uint64(s[i]), uint64(i+1)))
			}
			got = fmt.Sprint(comb.Rank(s))
			want = wv.String()
		}
	})
	if p {
		got = "panic: " + msg
	}
	return got, want
}

func evalCallSeq(seq []callStep) *Failure {
	for i, st := range seq {
		got, want := evalCall(st)
		if got != want {
			// a failure of the last call alone is an input failure (reported by the other phases with its own class)
			alone, _ := evalCall(st)
			cl := "comb/" + st.Fn + "/result-depends-on-earlier-calls"
			if alone != want {
				cl = "comb/" + st.Fn + "/wrong-result"
			}
			return &Failure{Class: cl, What: fmt.Sprintf("after the calls %s, call #%d %s(%d,%d) returned %s, correct is %s", js(seq[:i]), i, st.Fn, st.A, st.B, got, want), Kind: "call-seq", Replay: seq}
		}
	}
	return nil
}

func c16Histories(c *Ctx) {
	var alpha []callStep
	for k := 1; k <= 3; k++ {
		for r := 0; r <= 4; r++ {
			alpha = append(alpha, callStep{"Unrank", r, k})
		}
	}
	alpha = append(alpha, callStep{"Unrank", 0, 0}, callStep{"Coeff", 6, 2}, callStep{"Coeff", 40, 3}, callStep{"Coeff", 7, 0}, callStep{"Rank", 1, 2}, callStep{"Rank", 0, 3})
	L := 3
	if c.Thorough() {
		L = 4
	}
	var n int64
	var seq []callStep
	var rec func()
	rec = func() {
		if len(seq) > 0 {
			s := append([]callStep{}, seq...)
			c.Check(func() *Failure { return evalCallSeq(s) })
			n++
		}
		if len(seq) == L {
			return
		}
		for _, a := range alpha {
			seq = append(seq, a)
			rec()
			seq = seq[:len(seq)-1]
		}
	}
	rec() // sequential on purpose: the state in question would be process-global
	c.SetCount("call_sequences", n)
	c.Trans(n)
}

func runC16(c *Ctx) {
	c.Level = "exploration"
	c.Rule = "CoeffUint64/Coeff against incremental math/big binomials: every row n<=70 x all k, every k in 3..40 x every n from 0 to T_k+64 (both argument forms; k=3 interior thinned in quick), k=2 on +-2048 windows of every power of two (all n<=2^32+64 in thorough), k in {0,1} and far-region windows; Coeffs(n<=66); Rank on every subset of [0,16) against its CombinationsColex position; Unrank on every rank below 3*10^5 (2*10^6) for k<=6, boundary ranks C(l,k)+-1, a probe set of huge ranks, and r = MaxInt>>s with its neighbours (s<=40) for every k<=70 whose correct walk is at most 2e7 steps (deadline >= 100x the walk's time); Rank must invert Unrank or refuse only where a term lies outside the range Coeff must answer; every sequence of <=3 (4) calls over a 21-call alphabet run sequentially (results must not depend on earlier calls); non-trivial = case with k >= 2 or beyond the table rows"
	c16Histories(c)
	c16Coeff(c)
	c16Rank(c)
	c.Assume("Unrank inputs whose correct linear walk exceeds 2e7 steps (e.g. k=1 with r>2e7, k=2 with r>2e14) are not evaluated: they terminate, but not within a check")
}

func replayC16(kind string, raw json.RawMessage) *Failure {
	switch kind {
	case "coeff":
		var cc coeffCase
		json.Unmarshal(raw, &cc)
		b := bigBinom(cc.N, cc.K)
		if cc.Fn == "Coeff" {
			return checkCoeffInt(int(cc.N), int(cc.K), b)
		}
		return checkCoeffU64(cc.N, cc.K, b)
	case "unrank":
		var rc rankCase
		json.Unmarshal(raw, &rc)
		return checkUnrank(rc.R, rc.K, 20*time.Second)
	case "call-seq":
		var seq []callStep
		json.Unmarshal(raw, &seq)
		return evalCallSeq(seq)
	case "rank-big":
		var rc rankCase
		json.Unmarshal(raw, &rc)
		want := big.NewInt(0)
		for i, v := range rc.Comb {
			want.Add(want, bigBinom(uint64(v), uint64(i+1)))
		}
		var got int
		if _, p := try(func() { got = comb.Rank(rc.Comb) }); !p && (!want.IsInt64() || want.Int64() != int64(got)) {
			return &Failure{Class: "comb/Rank/wrong-value", What: fmt.Sprintf("Rank(%v) = %d, exact value %s", rc.Comb, got, want)}
		}
		return nil
	case "rank":
		var rc rankCase
		json.Unmarshal(raw, &rc)
		return checkRankSubset(rc.Comb, -1)
	}
	return &Failure{Class: "replay/unsupported-kind", What: kind}
}

func init() { register("C16", runC16, replayC16) }
