package main

// C11 part C: large graphs (60-140 vertices, beyond one machine word of vertex labels) of known planarity
// under several relabellings: "large planar graphs (triangulations and their subgraphs) and graphs
// containing a subdivided K5/K3,3 far from the first cycle found".

import (
	"time"
	"fmt"
	"sort"
)

type lgraph struct {
	name   string
	g      *EG
	planar bool
}

func egAdd(g *EG, a, b int) {
	if a != b {
		if a > b {
			a, b = b, a
		}
		g.Edges = append(g.Edges, [2]int{a, b})
	}
}

// randomTriangulation grows a triangulation from K4 by the two expansions, choices driven by an LCG.
func randomTriangulation(n int, seed uint64) *EG {
	t := &triang{g: completeB(4), faces: [][3]int{{0, 1, 2}, {0, 1, 3}, {0, 2, 3}, {1, 2, 3}}}
	// BGr is limited to 64 vertices, so keep an edge set here
	edges := map[[2]int]bool{}
	for _, e := range t.g.edgeList() {
		edges[e] = true
	}
	faces := append([][3]int{}, t.faces...)
	x := seed
	next := func(m int) int {
		x = x*6364136223846793005 + 1442695040888963407
		return int((x >> 33) % uint64(m))
	}
	key := func(a, b int) [2]int {
		if a > b {
			a, b = b, a
		}
		return [2]int{a, b}
	}
	for v := 4; v < n; v++ {
		if next(3) == 0 {
			fi := next(len(faces))
			f := faces[fi]
			edges[key(v, f[0])], edges[key(v, f[1])], edges[key(v, f[2])] = true, true, true
			faces[fi] = sort3(f[0], f[1], v)
			faces = append(faces, sort3(f[0], f[2], v), sort3(f[1], f[2], v))
			continue
		}
		// edge expansion: pick a face and one of its edges, find the other face on that edge
		for {
			fi := next(len(faces))
			f := faces[fi]
			k := next(3)
			a, b, c := f[k], f[(k+1)%3], f[(k+2)%3]
			other := -1
			for j, h := range faces {
				if j == fi {
					continue
				}
				has := func(y int) bool { return h[0] == y || h[1] == y || h[2] == y }
				if has(a) && has(b) {
					other = j
				}
			}
			if other < 0 {
				continue
			}
			d := -1
			for _, y := range faces[other] {
				if y != a && y != b {
					d = y
				}
			}
			if d == c {
				continue
			}
			delete(edges, key(a, b))
			for _, y := range []int{a, b, c, d} {
				edges[key(v, y)] = true
			}
			faces[fi] = sort3(a, c, v)
			faces[other] = sort3(c, b, v)
			faces = append(faces, sort3(b, d, v), sort3(d, a, v))
			break
		}
	}
	g := &EG{N: n}
	for e := range edges {
		g.Edges = append(g.Edges, e)
	}
	g.norm()
	return g
}

func largeGraphs(thorough bool) []lgraph {
	var out []lgraph
	add := func(name string, g *EG, planar bool) {
		g.norm()
		out = append(out, lgraph{name, g, planar})
	}
	sizes := []int{63, 64, 65, 66, 100}
	if thorough {
		sizes = append(sizes, 127, 128, 129, 140)
	}
	for _, n := range sizes {
		for _, hub := range []int{0, n - 1, n / 2} {
			w := &EG{N: n}
			rim := []int{}
			for v := 0; v < n; v++ {
				if v != hub {
					rim = append(rim, v)
				}
			}
			for i, v := range rim {
				egAdd(w, v, rim[(i+1)%len(rim)])
				egAdd(w, v, hub)
			}
			add(fmt.Sprintf("wheel%d-hub%d", n, hub), w, true)
		}
		pc := &EG{N: n}
		for i := 0; i < n; i++ {
			for d := 1; d <= 3; d++ {
				if i+d < n {
					egAdd(pc, i, i+d)
				}
			}
		}
		add(fmt.Sprintf("path-cube%d", n), pc, true)
		// the same triangulation plus one more edge (far apart), subdivided once: non-planar, M <= 3n-6
		np := &EG{N: n + 1, Edges: append([][2]int{}, pc.Edges...)}
		egAdd(np, 0, n)
		egAdd(np, n, n-1)
		add(fmt.Sprintf("path-cube%d+subdivided-chord", n), np, false)
		tri := randomTriangulation(n, uint64(n)*31+7)
		add(fmt.Sprintf("random-triangulation%d", n), tri, true)
		// delete every fifth edge: a planar subgraph
		sub := &EG{N: n}
		for i, e := range tri.Edges {
			if i%5 != 0 {
				sub.Edges = append(sub.Edges, e)
			}
		}
		add(fmt.Sprintf("random-triangulation%d-minus-fifth", n), sub, true)
		// triangulation plus a subdivided non-edge
		set := map[[2]int]bool{}
		for _, e := range tri.Edges {
			set[e] = true
		}
		for a := 0; a < n; a++ {
			b := n - 1 - a/2
			if a < b && !set[[2]int{a, b}] {
				x := &EG{N: n + 1, Edges: append([][2]int{}, tri.Edges...)}
				egAdd(x, a, n)
				egAdd(x, n, b)
				add(fmt.Sprintf("random-triangulation%d+subdivided-edge", n), x, false)
				break
			}
		}
	}
	// grids and chains of blocks
	grid := func(a, b int) *EG {
		g := &EG{N: a * b}
		for i := 0; i < a; i++ {
			for j := 0; j < b; j++ {
				if j+1 < b {
					egAdd(g, i*b+j, i*b+j+1)
				}
				if i+1 < a {
					egAdd(g, i*b+j, (i+1)*b+j)
				}
			}
		}
		return g
	}
	add("grid8x9", grid(8, 9), true)
	add("grid5x20", grid(5, 20), true)
	tor := grid(8, 9)
	for i := 0; i < 8; i++ {
		egAdd(tor, i*9, i*9+8)
	}
	for j := 0; j < 9; j++ {
		egAdd(tor, j, 7*9+j)
	}
	add("torus-grid8x9", tor, false)
	// chain of 12 wheels W5 sharing cut vertices, then (optionally) a K3,3 at the far end
	chain := func(k int, tail string) (*EG, int) {
		g := &EG{}
		last := 0
		g.N = 1
		for b := 0; b < k; b++ {
			base := g.N
			// wheel: hub = last (cut vertex), rim base..base+4
			for i := 0; i < 5; i++ {
				egAdd(g, base+i, base+(i+1)%5)
				egAdd(g, base+i, last)
			}
			g.N += 5
			last = base + 2
		}
		return g, last
	}
	cw, _ := chain(14, "")
	add("chain-of-14-wheels", cw, true)
	ck, last := chain(12, "")
	base := ck.N
	ck.N += 6
	for i := 0; i < 3; i++ {
		for j := 3; j < 6; j++ {
			egAdd(ck, base+i, base+j)
		}
	}
	egAdd(ck, last, base)
	add("chain-of-12-wheels-then-K3,3", ck, false)
	// heavily subdivided K5 and K3,3 (8 subdivision vertices per edge) inside one block with a long ear
	subdiv := func(n0 int, es [][2]int, per int) *EG {
		g := &EG{N: n0}
		for _, e := range es {
			prev := e[0]
			for s := 0; s < per; s++ {
				v := g.N
				g.N++
				egAdd(g, prev, v)
				prev = v
			}
			egAdd(g, prev, e[1])
		}
		return g
	}
	add("K5-subdivided-x8", subdiv(5, completeB(5).edgeList(), 8), false)
	k33 := [][2]int{}
	for i := 0; i < 3; i++ {
		for j := 3; j < 6; j++ {
			k33 = append(k33, [2]int{i, j})
		}
	}
	add("K3,3-subdivided-x9", subdiv(6, k33, 9), false)
	add("K4-subdivided-x12", subdiv(4, completeB(4).edgeList(), 12), true)
	pet := hardGraphs()["petersen"].edgeList()
	add("petersen-subdivided-x5", subdiv(10, pet, 5), false)
	sort.Slice(out, func(i, j int) bool { return out[i].name < out[j].name })
	return out
}

func egRelabel(g *EG, p []int) *EG {
	h := &EG{N: g.N}
	for _, e := range g.Edges {
		egAdd(h, p[e[0]], p[e[1]])
	}
	h.norm()
	return h
}

func c11Large(c *Ctx) {
	gs := largeGraphs(c.Thorough())
	type job struct {
		lg   lgraph
		perm []int
		pn   string
	}
	var jobs []job
	for _, lg := range gs {
		n := lg.g.N
		id := make([]int, n)
		rot37 := make([]int, n)
		for i := range id {
			id[i] = i
			rot37[i] = (i + 37) % n
		}
		ps := map[string][]int{"identity": id, "reversal": relabelBattery(n, false, 0)[0], "rotation": genTau(n), "rotation37": rot37}
		k := 3
		if c.Thorough() {
			k = 12
		}
		for s := 1; s <= k; s++ {
			ps[fmt.Sprintf("lcg%d", s)] = lcgPerm(n, uint64(s)*104729)
		}
		names := make([]string, 0, len(ps))
		for k := range ps {
			names = append(names, k)
		}
		sort.Strings(names)
		for _, pn := range names {
			jobs = append(jobs, job{lg, ps[pn], pn})
		}
	}
	// pendant vertices on large blocks: a new vertex p joined to one vertex v of the graph, inserted at label L (the
	// labels >= L move up), for L just before / at / after the labels of v's neighbours, 0 and n: planarity unchanged.
	// (A cut vertex whose degree is tiny compared with its block, and an outside neighbour whose label falls between
	// the labels of the block, is where size-dependent neighbour-list code is exercised.)
	for _, lg := range gs {
		n := lg.g.N
		if n > 150 || (len(jobs) > 4000 && !c.Thorough()) {
			continue
		}
		nb := lg.g.adjacency()
		vs := []int{0, 1, n / 3, n / 2, n - 2, n - 1}
		for _, v := range vs {
			if v < 0 || v >= n || len(nb[v]) == 0 {
				continue
			}
			Ls := map[int]bool{0: true, n: true, v: true, v + 1: true}
			for _, u := range nb[v] {
				Ls[u] = true
				Ls[u+1] = true
			}
			var Lsorted []int
			for L := range Ls {
				if L >= 0 && L <= n {
					Lsorted = append(Lsorted, L)
				}
			}
			sort.Ints(Lsorted)
			if len(Lsorted) > 8 && !c.Thorough() {
				Lsorted = Lsorted[:8]
			}
			for _, L := range Lsorted {
				h := &EG{N: n + 1}
				up := func(x int) int {
					if x >= L {
						return x + 1
					}
					return x
				}
				for _, e := range lg.g.Edges {
					egAdd(h, up(e[0]), up(e[1]))
				}
				egAdd(h, L, up(v))
				h.norm()
				id := make([]int, n+1)
				for i := range id {
					id[i] = i
				}
				jobs = append(jobs, job{lgraph{name: fmt.Sprintf("%s + pendant on %d inserted at label %d", lg.name, v, L), g: h, planar: lg.planar}, id, "identity"})
			}
		}
	}
	// evaluated in crash- and hang-isolated workers: on these sizes a defective IsPlanar can loop while allocating
	// until memory is exhausted, which must be a verdict about that graph and not the end of the check
	var cases []interface{}
	var pcs []planarCase
	for _, jb := range jobs {
		h := egRelabel(jb.lg.g, jb.perm)
		t := jb.lg.planar
		pc := planarCase{N: h.N, Edges: h.Edges, Truth: &t, Trace: []string{jb.lg.name, "relabel " + jb.pn}}
		cases = append(cases, pc)
		pcs = append(pcs, pc)
	}
	c.RunIsolated("planar-state-eg", cases, 180*time.Second, func(i int, timedOut bool, stderr string) *Failure {
		pc := pcs[i]
		cl := "planar/kills-the-process"
		if timedOut {
			cl = "planar/does-not-terminate"
		}
		if len(stderr) > 300 {
			stderr = stderr[:300]
		}
		return &Failure{Class: cl, What: fmt.Sprintf("n=%d %d edges, built by %v: IsPlanar gave no answer in an isolated worker (12 GB address space, 180 s): %s", pc.N, len(pc.Edges), pc.Trace, stderr), Kind: "planar-state-eg", Replay: pc}
	})
	c.Nontrivial(int64(len(jobs)))
	c.States(int64(len(jobs)))
	c.SetCount("partC_large_graphs", int64(len(gs)))
	c.SetCount("partC_cases", int64(len(jobs)))
}

// evalPlanarStateEG is evalPlanarState for graphs with more than 64 vertices.
func evalPlanarStateEG(pc planarCase) *Failure {
	g := &EG{N: pc.N, Edges: pc.Edges}
	truth := pc.Truth != nil && *pc.Truth
	mk := func(cl, what string) *Failure {
		return &Failure{Class: "planar/" + cl, What: fmt.Sprintf("n=%d %d edges, built by %v: %s", pc.N, len(pc.Edges), pc.Trace, what), Kind: "planar-state-eg", Replay: pc}
	}
	got, cl, what := libPlanar(libGraphFromEG(g, "dense"))
	if cl != "" {
		return mk(cl, what)
	}
	if got != truth {
		if truth {
			return mk("planar-graph-rejected", "planar by construction, IsPlanar = false")
		}
		return mk("nonplanar-graph-accepted", "non-planar by construction, IsPlanar = true")
	}
	// the sparse representation must agree
	got2, cl, what := libPlanar(libGraphFromEG(g, "sparse"))
	if cl != "" {
		return mk(cl, "sparse: "+what)
	}
	if got2 != got {
		return mk("representation-dependent", "dense and sparse disagree")
	}
	return nil
}
