package main

// C10 on larger structured graphs (33-140 vertices) with scalable reference algorithms written independently:
// BFS distances, union-find components, recursive lowpoint blocks / articulation vertices, BFS girth.

import (
	"fmt"
	"sort"

	"github.com/Tom-Johnston/mamba/graph"
)

func egBFS(nb [][]int, s int) []int {
	d := make([]int, len(nb))
	for i := range d {
		d[i] = -1
	}
	d[s] = 0
	q := []int{s}
	for len(q) > 0 {
		v := q[0]
		q = q[1:]
		for _, u := range nb[v] {
			if d[u] < 0 {
				d[u] = d[v] + 1
				q = append(q, u)
			}
		}
	}
	return d
}

func egGirth(nb [][]int) int {
	best := -1
	n := len(nb)
	for s := 0; s < n; s++ {
		d := make([]int, n)
		par := make([]int, n)
		for i := range d {
			d[i] = -1
		}
		d[s] = 0
		par[s] = -1
		q := []int{s}
		for len(q) > 0 {
			v := q[0]
			q = q[1:]
			for _, u := range nb[v] {
				if d[u] < 0 {
					d[u] = d[v] + 1
					par[u] = v
					q = append(q, u)
				} else if par[v] != u {
					if c := d[u] + d[v] + 1; best < 0 || c < best {
						best = c
					}
				}
			}
		}
	}
	return best
}

// egBlocks: blocks (as sorted vertex lists) and articulation vertices by the classical recursive lowpoint algorithm.
func egBlocks(nb [][]int) ([][]int, []int) {
	n := len(nb)
	num := make([]int, n)
	low := make([]int, n)
	for i := range num {
		num[i] = -1
	}
	var blocks [][]int
	art := map[int]bool{}
	var stack [][2]int
	cnt := 0
	var dfs func(v, parent int)
	dfs = func(v, parent int) {
		num[v] = cnt
		low[v] = cnt
		cnt++
		children := 0
		for _, u := range nb[v] {
			if num[u] < 0 {
				children++
				stack = append(stack, [2]int{v, u})
				dfs(u, v)
				if low[u] < low[v] {
					low[v] = low[u]
				}
				if low[u] >= num[v] {
					if parent >= 0 || children > 1 {
						art[v] = true
					}
					set := map[int]bool{}
					for {
						e := stack[len(stack)-1]
						stack = stack[:len(stack)-1]
						set[e[0]], set[e[1]] = true, true
						if e == [2]int{v, u} {
							break
						}
					}
					var b []int
					for x := range set {
						b = append(b, x)
					}
					sort.Ints(b)
					blocks = append(blocks, b)
				}
			} else if u != parent && num[u] < num[v] {
				stack = append(stack, [2]int{v, u})
				if num[u] < low[v] {
					low[v] = num[u]
				}
			}
		}
	}
	for v := 0; v < n; v++ {
		if num[v] < 0 {
			if len(nb[v]) == 0 {
				blocks = append(blocks, []int{v})
				num[v] = cnt
				cnt++
				continue
			}
			dfs(v, -1)
		}
	}
	var arts []int
	for v := range art {
		arts = append(arts, v)
	}
	sort.Ints(arts)
	return blocks, arts
}

type largeCase struct {
	Name  string   `json:"name"`
	N     int      `json:"n"`
	Edges [][2]int `json:"edges"`
	Rep   string   `json:"rep"`
}

func evalC10Large(lc largeCase) *Failure {
	g := &EG{N: lc.N, Edges: lc.Edges}
	g.norm()
	nb := g.adjacency()
	n := g.N
	mk := func(fn, cl, what string) *Failure {
		return &Failure{Class: "invariants/" + fn + "/" + cl + "/large", What: fmt.Sprintf("%s on %s %s (n=%d, %d edges): %s", fn, lc.Rep, lc.Name, n, len(g.Edges), what), Kind: "c10-large", Replay: lc}
	}
	lg := libGraphFromEG(g, lc.Rep)
	var f *Failure
	msg, p := try(func() {
		// components
		comp := make([]int, n)
		for i := range comp {
			comp[i] = -1
		}
		var comps [][]int
		for s := 0; s < n; s++ {
			if comp[s] >= 0 {
				continue
			}
			d := egBFS(nb, s)
			var c []int
			for v := 0; v < n; v++ {
				if d[v] >= 0 {
					comp[v] = len(comps)
					c = append(c, v)
				}
			}
			comps = append(comps, c)
		}
		if got := graph.ConnectedComponents(lg); listsKey(got) != listsKey(comps) {
			f = mk("ConnectedComponents", "wrong-components", fmt.Sprintf("%d components, want %d", len(got), len(comps)))
			return
		}
		for _, v := range []int{0, 1, n / 3, n / 2, n - 2, n - 1} {
			if v < 0 || v >= n {
				continue
			}
			if got := graph.ConnectedComponent(lg, v); !intsEq(got, comps[comp[v]]) {
				f = mk("ConnectedComponent", "wrong-component", fmt.Sprintf("component of %d has %d vertices %v, want %d", v, len(got), got, len(comps[comp[v]])))
				return
			}
		}
		connected := len(comps) <= 1
		ecc := make([]int, n)
		for s := 0; s < n; s++ {
			d := egBFS(nb, s)
			for v, x := range d {
				if x > ecc[s] {
					ecc[s] = x
				}
				if s%7 == 0 || s >= n-3 {
					if got := graph.Distance(lg, s, v); got != x {
						f = mk("Distance", "wrong-value", fmt.Sprintf("Distance(%d,%d) = %d want %d", s, v, got, x))
						return
					}
				}
			}
		}
		ge := graph.Eccentricity(lg)
		wantD, wantR := 0, 1<<30
		for v := 0; v < n; v++ {
			w := ecc[v]
			if !connected {
				w = -1
			}
			if ge[v] != w {
				f = mk("Eccentricity", "wrong-value", fmt.Sprintf("vertex %d: %d want %d", v, ge[v], w))
				return
			}
			if w > wantD {
				wantD = w
			}
			if w < wantR {
				wantR = w
			}
		}
		if !connected {
			wantD, wantR = -1, -1
		}
		if got := graph.Diameter(lg); got != wantD {
			f = mk("Diameter", "wrong-value", fmt.Sprintf("%d want %d", got, wantD))
			return
		}
		if got := graph.Radius(lg); got != wantR {
			f = mk("Radius", "wrong-value", fmt.Sprintf("%d want %d", got, wantR))
			return
		}
		if got, want := graph.Girth(lg), egGirth(nb); got != want {
			f = mk("Girth", "wrong-value", fmt.Sprintf("%d want %d", got, want))
			return
		}
		wb, wa := egBlocks(nb)
		gb, ga := graph.BiconnectedComponents(lg)
		if listsKey(gb) != listsKey(wb) || len(gb) != len(wb) {
			f = mk("BiconnectedComponents", "wrong-blocks", fmt.Sprintf("%d blocks, want %d", len(gb), len(wb)))
			return
		}
		if !intsEq(sortedCopy(ga), wa) {
			f = mk("BiconnectedComponents", "wrong-articulation-vertices", fmt.Sprintf("%v want %v", sortedCopy(ga), wa))
			return
		}
	})
	if p {
		return mk("any", "panic", msg)
	}
	return f
}

func c10LargeGraphs(thorough bool) []largeCase {
	var out []largeCase
	add := func(name string, g *EG) {
		g.norm()
		for _, rep := range []string{"dense", "sparse"} {
			out = append(out, largeCase{Name: name, N: g.N, Edges: g.Edges, Rep: rep})
			h := egRelabel(g, lcgPerm(g.N, uint64(g.N)*31+5))
			out = append(out, largeCase{Name: name + "/relabelled", N: h.N, Edges: h.Edges, Rep: rep})
		}
	}
	sizes := []int{33, 40, 64, 65, 70, 100}
	if thorough {
		sizes = append(sizes, 128, 129, 140)
	}
	for _, n := range sizes {
		path := &EG{N: n}
		cyc := &EG{N: n}
		star := &EG{N: n}
		bt := &EG{N: n}
		two := &EG{N: n} // path on the first half, cycle on the second half, last vertex isolated
		for i := 1; i < n; i++ {
			egAdd(path, i-1, i)
			egAdd(cyc, i-1, i)
			egAdd(star, n/2, i-1+boolInt(i-1 >= n/2))
			egAdd(bt, i, (i-1)/2)
		}
		egAdd(cyc, n-1, 0)
		h := n / 2
		for i := 1; i < h; i++ {
			egAdd(two, i-1, i)
		}
		for i := h; i < n-1; i++ {
			nx := i + 1
			if nx == n-1 {
				nx = h
			}
			egAdd(two, i, nx)
		}
		add(fmt.Sprintf("path%d", n), path)
		add(fmt.Sprintf("cycle%d", n), cyc)
		add(fmt.Sprintf("star%d", n), star)
		add(fmt.Sprintf("binary-tree%d", n), bt)
		add(fmt.Sprintf("path+cycle+isolated%d", n), two)
		// chain of 4-cycles sharing cut vertices with pendant edges
		ch := &EG{}
		last := 0
		ch.N = 1
		for ch.N+3 <= n {
			a, b, c2 := ch.N, ch.N+1, ch.N+2
			ch.N += 3
			egAdd(ch, last, a)
			egAdd(ch, a, b)
			egAdd(ch, b, c2)
			egAdd(ch, c2, last)
			last = b
		}
		for ch.N < n {
			egAdd(ch, last, ch.N)
			last = ch.N
			ch.N++
		}
		add(fmt.Sprintf("cycle-chain%d", n), ch)
	}
	gridEG := func(a, b int) *EG {
		g := &EG{N: a * b}
		for i := 0; i < a; i++ {
			for j := 0; j < b; j++ {
				if j+1 < b {
					egAdd(g, i*b+j, i*b+j+1)
				}
				if i+1 < a {
					egAdd(g, i*b+j, (i+1)*b+j)
				}
			}
		}
		return g
	}
	add("grid6x7", gridEG(6, 7))
	add("grid5x13", gridEG(5, 13))
	pc := &EG{N: 66}
	for i := 0; i < 66; i++ {
		for d := 1; d <= 3; d++ {
			if i+d < 66 {
				egAdd(pc, i, i+d)
			}
		}
	}
	add("path-cube66", pc)
	return out
}

func boolInt(b bool) int {
	if b {
		return 1
	}
	return 0
}

func c10Large(c *Ctx) {
	cases := c10LargeGraphs(c.Thorough())
	c.parFor(int64(len(cases)), 1, func(lo, hi int64) {
		for _, lc := range cases[lo:hi] {
			lc := lc
			c.Check(func() *Failure { return evalC10Large(lc) })
			c.Nontrivial(1)
		}
	})
	c.SetCount("large_structured_cases", int64(len(cases)))
}
