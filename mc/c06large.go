package main

// C06 on graphs with 17..70 vertices: the transformations against their definitions computed on an edge-list
// model (ComplementDense, Complement view, InducedSubgraph view, SplitEdge, Contract exactly; LineGraphDense by
// vertex count, edge count and degree multiset), dense, sparse and dense-bytes sources.

import (
	"fmt"
	"sort"

	"github.com/Tom-Johnston/mamba/graph"
)

type c06LargeCase struct {
	Graph string   `json:"graph"`
	N     int      `json:"n"`
	Edges [][2]int `json:"edges"`
	Rep   string   `json:"rep"`
	Fn    string   `json:"fn"`
	V     []int    `json:"args,omitempty"`
}

func evalC06Large(lc c06LargeCase) *Failure {
	src := &EG{N: lc.N, Edges: lc.Edges}
	src.norm()
	n := src.N
	mk := func(cl, what string) *Failure {
		return &Failure{Class: "construct/" + lc.Fn + "/" + cl + "/large", What: fmt.Sprintf("%s on %s %s (n=%d) args %v: %s", lc.Fn, lc.Rep, lc.Graph, n, lc.V, what), Kind: "transform-large", Replay: lc}
	}
	has := map[[2]int]bool{}
	for _, e := range src.Edges {
		has[e] = true
	}
	adj := func(i, j int) bool {
		if i > j {
			i, j = j, i
		}
		return has[[2]int{i, j}]
	}
	base := libGraphFromEG(src, lc.Rep).(graph.EditableGraph)
	var out graph.Graph
	var want *EG
	exact := true
	msg, p := try(func() {
		switch lc.Fn {
		case "ComplementDense", "Complement":
			if lc.Fn == "ComplementDense" {
				out = graph.ComplementDense(base)
			} else {
				out = graph.Complement(base)
			}
			want = &EG{N: n}
			for j := 1; j < n; j++ {
				for i := 0; i < j; i++ {
					if !adj(i, j) {
						want.Edges = append(want.Edges, [2]int{i, j})
					}
				}
			}
		case "InducedSubgraphView":
			out = graph.InducedSubgraph(base, append([]int{}, lc.V...))
			want = &EG{N: len(lc.V)}
			for j := 1; j < len(lc.V); j++ {
				for i := 0; i < j; i++ {
					if adj(lc.V[i], lc.V[j]) {
						want.Edges = append(want.Edges, [2]int{i, j})
					}
				}
			}
		case "SplitEdge":
			graph.SplitEdge(base, lc.V[0], lc.V[1])
			out = base
			want = &EG{N: n + 1}
			for _, e := range src.Edges {
				if !(e[0] == lc.V[0] && e[1] == lc.V[1]) && !(e[0] == lc.V[1] && e[1] == lc.V[0]) {
					want.Edges = append(want.Edges, e)
				}
			}
			egAdd(want, lc.V[0], n)
			egAdd(want, lc.V[1], n)
		case "Contract":
			a, b := lc.V[0], lc.V[1]
			graph.Contract(base, a, b)
			out = base
			want = &EG{N: n - 1}
			ren := func(v int) int {
				if v == b {
					v = a
				}
				if v > b {
					return v - 1
				}
				return v
			}
			for _, e := range src.Edges {
				egAdd(want, ren(e[0]), ren(e[1]))
			}
		case "LineGraphDense":
			out = graph.LineGraphDense(base)
			exact = false
		}
	})
	if p {
		return mk("panic", msg)
	}
	got, prob := egFromLib(out)
	if prob != "" {
		return mk("malformed", prob)
	}
	if exact {
		want.norm()
		if got.key() != want.key() {
			return mk("malformed-or-wrong", fmt.Sprintf("%d edges, the definition gives %d (first difference %s)", len(got.Edges), len(want.Edges), firstEdgeDiff(got, want)))
		}
		return nil
	}
	// line graph: one vertex per edge, deg(uv) = deg(u)+deg(v)-2, number of edges = sum over vertices of C(deg,2)
	deg := make([]int, n)
	for _, e := range src.Edges {
		deg[e[0]]++
		deg[e[1]]++
	}
	wantM := 0
	for _, d := range deg {
		wantM += d * (d - 1) / 2
	}
	var wantDeg []int
	for _, e := range src.Edges {
		wantDeg = append(wantDeg, deg[e[0]]+deg[e[1]]-2)
	}
	sort.Ints(wantDeg)
	gd := make([]int, got.N)
	for _, e := range got.Edges {
		gd[e[0]]++
		gd[e[1]]++
	}
	sort.Ints(gd)
	if got.N != len(src.Edges) || len(got.Edges) != wantM || fmt.Sprint(gd) != fmt.Sprint(wantDeg) {
		return mk("not-the-line-graph", fmt.Sprintf("N=%d M=%d degrees %v; the line graph has N=%d M=%d degrees %v", got.N, len(got.Edges), gd, len(src.Edges), wantM, wantDeg))
	}
	return nil
}

func firstEdgeDiff(a, b *EG) string {
	in := map[[2]int]bool{}
	for _, e := range b.Edges {
		in[e] = true
	}
	for _, e := range a.Edges {
		if !in[e] {
			return fmt.Sprintf("extra edge %v", e)
		}
		delete(in, e)
	}
	for e := range in {
		return fmt.Sprintf("missing edge %v", e)
	}
	return "none"
}

func c06Large(c *Ctx) {
	var cases []c06LargeCase
	for _, n := range []int{17, 32, 33, 64, 65, 70} {
		type gg struct {
			name string
			g    *EG
		}
		var gs []gg
		mk := func(name string, edge func(i, j int) bool) {
			g := &EG{N: n}
			for j := 1; j < n; j++ {
				for i := 0; i < j; i++ {
					if edge(i, j) {
						g.Edges = append(g.Edges, [2]int{i, j})
					}
				}
			}
			gs = append(gs, gg{fmt.Sprintf("%s(%d)", name, n), g})
		}
		mk("path", func(i, j int) bool { return j == i+1 })
		mk("cycle", func(i, j int) bool { return j == i+1 || (i == 0 && j == n-1) })
		mk("star-hub-last", func(i, j int) bool { return j == n-1 })
		mk("K(3,n-3)", func(i, j int) bool { return i < 3 && j >= 3 })
		x := uint64(n)*104729 + 5
		mk("lcg-sparse", func(i, j int) bool {
			x = x*6364136223846793005 + 1442695040888963407
			return (x>>33)%7 == 0
		})
		for _, g := range gs {
			for _, rep := range []string{"dense", "sparse", "dense-bytes"} {
				add := func(fn string, v ...int) {
					cases = append(cases, c06LargeCase{Graph: g.name, N: n, Edges: g.g.Edges, Rep: rep, Fn: fn, V: v})
				}
				add("ComplementDense")
				add("Complement")
				add("LineGraphDense")
				pp := lcgPerm(n, uint64(n)*3+1)
				add("InducedSubgraphView", pp...)
				add("InducedSubgraphView", pp[:n-4]...)
				var tail []int
				for v := 1; v < n; v++ {
					tail = append(tail, v)
				}
				add("InducedSubgraphView", tail...)
				for _, e := range [][2]int{{0, 1}, {n - 2, n - 1}, {n - 1, 0}, {n / 2, n/2 + 1}, {1, n - 1}} {
					add("SplitEdge", e[0], e[1])
					add("Contract", e[0], e[1])
					add("Contract", e[1], e[0])
				}
			}
		}
	}
	c.parFor(int64(len(cases)), 8, func(lo, hi int64) {
		for _, lc := range cases[lo:hi] {
			lc := lc
			c.Check(func() *Failure { return evalC06Large(lc) })
			c.Nontrivial(1)
		}
	})
	c.SetCount("transformations_on_17_to_70_vertices", int64(len(cases)))
}
