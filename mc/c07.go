package main

// C07: graph codecs round-trip every graph and follow their format definitions.

import (
	"bytes"
	"encoding/json"
	"fmt"

	"github.com/Tom-Johnston/mamba/graph"
	"github.com/Tom-Johnston/mamba/sortints"
)

type codecCase struct {
	Codec string   `json:"codec"`
	N     int      `json:"n"`
	Edges [][2]int `json:"edges"`
	Rep   string   `json:"rep"`
	Code  []int    `json:"code,omitempty"`
	Recs  []int    `json:"records,omitempty"`
}

func libGraphFromEG(g *EG, rep string) graph.Graph {
	if rep == "sparse" {
		nb := g.adjacency()
		ns := make([]sortints.SortedInts, g.N)
		for i := range nb {
			ns[i] = sortints.SortedInts(nb[i])
			if ns[i] == nil {
				ns[i] = sortints.SortedInts{}
			}
		}
		return graph.NewSparse(g.N, ns)
	}
	e := make([]byte, g.N*(g.N-1)/2)
	for _, x := range g.Edges {
		i := x[1]*(x[1]-1)/2 + x[0]
		e[i] = 1
		if rep == "dense-bytes" { // arbitrary non-zero indicator bytes: a valid DenseGraph (the library tests > 0)
			e[i] = byte(2 + (i*37)%254)
		}
	}
	return graph.NewDense(g.N, e)
}

// egFromLib reads a library graph through Neighbours (O(n+m)) and checks internal consistency of N/M/Degrees.
func egFromLib(h graph.Graph) (eg *EG, problem string) {
	defer func() {
		if r := recover(); r != nil {
			problem = fmt.Sprintf("observer panics: %v", r)
		}
	}()
	n := h.N()
	eg = &EG{N: n}
	deg := h.Degrees()
	if len(deg) != n {
		return eg, fmt.Sprintf("len(Degrees())=%d, N()=%d", len(deg), n)
	}
	total := 0
	for v := 0; v < n; v++ {
		nb := h.Neighbours(v)
		if len(nb) != deg[v] {
			return eg, fmt.Sprintf("Degrees()[%d]=%d but Neighbours(%d)=%v", v, deg[v], v, nb)
		}
		for i, u := range nb {
			if u < 0 || u >= n || u == v || (i > 0 && nb[i-1] >= u) {
				return eg, fmt.Sprintf("Neighbours(%d)=%v is not an ascending list of other vertices", v, nb)
			}
			if u < v {
				eg.Edges = append(eg.Edges, [2]int{u, v})
			}
			total++
		}
	}
	eg.norm()
	if total != 2*len(eg.Edges) {
		return eg, "adjacency is not symmetric"
	}
	if h.M() != len(eg.Edges) {
		return eg, fmt.Sprintf("M()=%d but %d edges", h.M(), len(eg.Edges))
	}
	if n <= 64 {
		for _, e := range eg.Edges {
			if !h.IsEdge(e[0], e[1]) || !h.IsEdge(e[1], e[0]) {
				return eg, fmt.Sprintf("IsEdge(%d,%d) false for a listed neighbour", e[0], e[1])
			}
		}
	}
	return eg, ""
}

func allowedBytes(s string, sparse bool) bool {
	for i := 0; i < len(s); i++ {
		if sparse && i == 0 {
			if s[0] != ':' {
				return false
			}
			continue
		}
		if s[i] < 63 || s[i] > 126 {
			return false
		}
	}
	return true
}

func sparse6Class(g *EG, base string) string {
	// narrow classes for the boundary inputs of the sparse6 codec
	switch {
	case g.N == 0:
		return base + "/n=0"
	case g.N == 1:
		return base + "/n=1"
	case len(g.Edges) == 0:
		return base + "/edgeless"
	}
	return base
}

func evalCodec(cc codecCase) *Failure {
	g := &EG{N: cc.N, Edges: cc.Edges}
	g.norm()
	mk := func(cl, what string) *Failure {
		desc := fmt.Sprintf("n=%d edges=%v", cc.N, cc.Edges)
		if len(cc.Edges) > 12 {
			desc = fmt.Sprintf("n=%d, %d edges starting %v", cc.N, len(cc.Edges), cc.Edges[:6])
		}
		return &Failure{Class: "codec/" + cc.Codec + "/" + cl, What: fmt.Sprintf("%s (%s): %s", desc, cc.Rep, what), Kind: "codec", Replay: cc}
	}
	var lg graph.Graph
	if msg, p := try(func() { lg = libGraphFromEG(g, cc.Rep) }); p {
		return mk("cannot-build-input", msg)
	}
	defer func() {}()
	if f := encodersArePure(cc, g, lg, mk); f != nil {
		return f
	}
	switch cc.Codec {
	case "graph6":
		var enc string
		if msg, p := try(func() { enc = graph.Graph6Encode(lg) }); p {
			return mk("encode-panics", msg)
		}
		ref := refGraph6Encode(g)
		if enc != ref {
			return mk("encoding-differs-from-format", fmt.Sprintf("encoded %q, the format prescribes %q", clip(enc), clip(ref)))
		}
		for _, hdr := range []string{"", ">>graph6<<"} {
			var d *graph.DenseGraph
			var err error
			if msg, p := try(func() { d, err = graph.Graph6Decode(hdr + ref) }); p {
				return mk("decode-panics", msg)
			}
			if err != nil {
				return mk("decode-rejects-valid", fmt.Sprintf("%q: %v", clip(hdr+ref), err))
			}
			got, prob := egFromLib(d)
			if prob != "" {
				return mk("decoded-graph-malformed", prob)
			}
			if got.key() != g.key() {
				return mk("round-trip", fmt.Sprintf("decode(%q) = %s", clip(hdr+ref), clip(got.key())))
			}
		}
	case "sparse6":
		var enc string
		if msg, p := try(func() { enc = graph.Sparse6Encode(lg) }); p {
			return mk(sparse6Class(g, "encode-panics"), msg)
		}
		if !allowedBytes(enc, true) {
			return mk("bytes-outside-format", fmt.Sprintf("%q", clip(enc)))
		}
		rd, err := refSparse6Decode(enc)
		if err != nil {
			return mk("encoding-not-decodable-by-format", fmt.Sprintf("%q: %v", clip(enc), err))
		}
		if rd.Loops > 0 {
			return mk("encoding-has-loop-under-format-decoder/padding", fmt.Sprintf("%q decodes per formats.txt with a loop (special padding rule for n=2^k not applied)", clip(enc)))
		}
		if rd.key() != g.key() {
			return mk("encoding-decodes-to-other-graph-under-format", fmt.Sprintf("%q decodes per formats.txt to %s", clip(enc), clip(rd.key())))
		}
		ref := refSparse6Encode(g)
		for _, in := range []string{ref, ">>sparse6<<" + ref, enc} {
			var d *graph.SparseGraph
			if msg, p := try(func() { d, err = graph.Sparse6Decode(in) }); p {
				return mk(sparse6Class(g, "decode-panics"), fmt.Sprintf("%q: %s", clip(in), msg))
			}
			if err != nil {
				return mk(sparse6Class(g, "decode-rejects-valid"), fmt.Sprintf("%q: %v", clip(in), err))
			}
			got, prob := egFromLib(d)
			if prob != "" {
				return mk("decoded-graph-malformed", prob)
			}
			if got.key() != g.key() {
				cl := "round-trip"
				if (len(in)-1-len(refSizeField(g.N)))*6 > 0 && unitsFillLastByte(g) {
					cl = "round-trip/stream-ends-on-6bit-boundary"
				}
				return mk(sparse6Class(g, cl), fmt.Sprintf("decode(%q) = %s", clip(in), clip(got.key())))
			}
		}
	case "multicode":
		if g.N > 255 {
			return nil
		}
		var enc []byte
		if msg, p := try(func() { enc = graph.MulticodeEncode(lg) }); p {
			return mk("encode-panics", msg)
		}
		ref := refMulticodeEncode(g)
		// the format fixes the record structure, not the order inside one vertex's list: the library's bytes
		// must parse, by the format's rules, to exactly g (each edge once, under its smaller endpoint)
		if pg, prob := refMulticodeParse(enc); prob != "" {
			return mk("encoding-differs-from-format", fmt.Sprintf("%v is not a Multicode record: %s (a conforming encoding is %v)", enc, prob, ref))
		} else if pg.key() != g.key() {
			return mk("encoding-differs-from-format", fmt.Sprintf("%v encodes %s, not the graph (a conforming encoding is %v)", enc, clip(pg.key()), ref))
		}
		if !bytes.Equal(enc, ref) {
			var d0 *graph.DenseGraph
			if msg, p := try(func() { d0 = graph.MulticodeDecode(enc) }); p {
				return mk("decode-panics", "own encoding: "+msg)
			}
			got0, prob := egFromLib(d0)
			if prob != "" {
				return mk("decoded-graph-malformed", prob)
			}
			if got0.key() != g.key() {
				return mk("round-trip", "own encoding: "+clip(got0.key()))
			}
		}
		var d *graph.DenseGraph
		if msg, p := try(func() { d = graph.MulticodeDecode(ref) }); p {
			cl := "decode-panics"
			if hasEdgeToLast(g) {
				cl += "/edge-to-last-vertex"
			}
			return mk(cl, msg)
		}
		got, prob := egFromLib(d)
		if prob != "" {
			return mk("decoded-graph-malformed", prob)
		}
		if got.key() != g.key() {
			return mk("round-trip", clip(got.key()))
		}
	}
	return nil
}

// encodersArePure: encoding twice gives the same bytes and leaves the graph exactly as it was.
func encodersArePure(cc codecCase, g *EG, lg graph.Graph, mk func(cl, what string) *Failure) *Failure {
	enc := func() (string, string, bool) {
		var out string
		msg, p := try(func() {
			switch cc.Codec {
			case "graph6":
				out = graph.Graph6Encode(lg)
			case "sparse6":
				out = graph.Sparse6Encode(lg)
			case "multicode":
				if g.N <= 255 {
					out = string(graph.MulticodeEncode(lg))
				}
			}
		})
		return out, msg, p
	}
	a, msg, p := enc()
	if p {
		return nil // reported with its own class below
	}
	_ = msg
	b, _, p2 := enc()
	if p2 || a != b {
		return mk("encoder-not-repeatable", "a second encoding of the same graph value differs from the first")
	}
	after, prob := egFromLib(lg)
	if prob != "" || after.key() != g.key() {
		return mk("encoder-modifies-its-argument", fmt.Sprintf("after encoding the graph is %s %s", clip(after.key()), prob))
	}
	return nil
}

func hasEdgeToLast(g *EG) bool {
	for _, e := range g.Edges {
		if e[1] == g.N-1 {
			return true
		}
	}
	return false
}

// unitsFillLastByte: the reference sparse6 stream of g ends exactly on a 6-bit boundary.
func unitsFillLastByte(g *EG) bool {
	k := sparse6K(g.N)
	units := 0
	cur := 0
	nb := g.adjacency()
	for v := 0; v < g.N; v++ {
		for _, u := range nb[v] {
			if u > v {
				break
			}
			if v == cur {
				units++
			} else if v == cur+1 {
				cur = v
				units++
			} else {
				cur = v
				units += 2
			}
		}
	}
	return units > 0 && units*(k+1)%6 == 0
}

func clip(s string) string {
	if len(s) > 120 {
		return s[:120] + "..."
	}
	return s
}

func evalPruferCode(cc codecCase) *Failure {
	mk := func(cl, what string) *Failure {
		return &Failure{Class: "codec/prufer/" + cl, What: fmt.Sprintf("code %v: %s", cc.Code, what), Kind: "prufer-code", Replay: cc}
	}
	var d *graph.DenseGraph
	if msg, p := try(func() { d = graph.PruferDecode(append([]int{}, cc.Code...)) }); p {
		return mk("decode-panics", msg)
	}
	want := refPruferDecode(cc.Code)
	n := len(cc.Code) + 2
	got := egFromGraph(n, d.IsEdge)
	if d.N() != n || got.key() != want.key() {
		return mk("decode-wrong-tree", fmt.Sprintf("got %s want %s", got.key(), want.key()))
	}
	if !isTree(got) {
		return mk("decode-not-a-tree", got.key())
	}
	var back []int
	if msg, p := try(func() { back = graph.PruferEncode(libGraphFromEG(want, "dense")) }); p {
		return mk("encode-panics", msg)
	}
	if !intsEq(back, cc.Code) {
		return mk("encode-does-not-invert-decode", fmt.Sprintf("encode(decode(code)) = %v", back))
	}
	// encode straight from the library's own decoded graph as well (needs working Degrees)
	var back2 []int
	if msg, p := try(func() { back2 = graph.PruferEncode(d) }); p || !intsEq(back2, cc.Code) {
		return mk("encode-of-decoded-graph", fmt.Sprintf("PruferEncode(PruferDecode(code)) = %v %s", back2, msg))
	}
	if msg, p := try(func() { back2 = graph.PruferEncode(d) }); p || !intsEq(back2, cc.Code) {
		return mk("encode-not-repeatable", fmt.Sprintf("second PruferEncode of the decoded tree = %v %s", back2, msg))
	}
	if w := selfConsistent(d); w != "" {
		return mk("encode-modifies-its-argument", "after PruferEncode the decoded tree is malformed: "+w)
	}
	return nil
}

func evalPruferTree(cc codecCase) *Failure {
	g := &EG{N: cc.N, Edges: cc.Edges}
	g.norm()
	mk := func(cl, what string) *Failure {
		return &Failure{Class: "codec/prufer/" + cl, What: fmt.Sprintf("tree n=%d %v (%s): %s", cc.N, cc.Edges, cc.Rep, what), Kind: "prufer-tree", Replay: cc}
	}
	var code, code2 []int
	tree := libGraphFromEG(g, cc.Rep)
	if msg, p := try(func() { code = graph.PruferEncode(tree) }); p {
		return mk("encode-panics", msg)
	}
	want := refPruferEncode(g)
	if !intsEq(code, want) {
		return mk("encode-wrong-code", fmt.Sprintf("got %v want %v", code, want))
	}
	// encoding is a read-only query: the tree is unchanged and a second encoding gives the same code
	if after, prob := egFromLib(tree); prob != "" || after.key() != g.key() {
		return mk("encode-modifies-its-argument", fmt.Sprintf("after PruferEncode the tree is %s %s", after.key(), prob))
	}
	if msg, p := try(func() { code2 = graph.PruferEncode(tree) }); p || !intsEq(code2, want) {
		return mk("encode-not-repeatable", fmt.Sprintf("second PruferEncode of the same tree value gives %v %s", code2, msg))
	}
	var d *graph.DenseGraph
	if msg, p := try(func() { d = graph.PruferDecode(code) }); p {
		return mk("decode-panics", msg)
	}
	if got := egFromGraph(cc.N, d.IsEdge); got.key() != g.key() {
		return mk("decode-does-not-invert-encode", got.key())
	}
	return nil
}

func evalMultiMultiple(cc codecCase, pool []*EG) *Failure {
	var stream []byte
	var want []*EG
	for _, r := range cc.Recs {
		stream = append(stream, refMulticodeEncode(pool[r])...)
		want = append(want, pool[r])
	}
	mk := func(cl, what string) *Failure {
		sfx := ""
		for _, w := range want {
			if w.N <= 1 {
				sfx = "/record-with-n<=1"
			}
		}
		return &Failure{Class: "codec/multicode-multiple/" + cl + sfx, What: fmt.Sprintf("records %v stream %v: %s", cc.Recs, stream, what), Kind: "multicode-multiple", Replay: cc}
	}
	var gs []*graph.DenseGraph
	if msg, p := try(func() { gs = graph.MulticodeDecodeMultiple(stream) }); p {
		return mk("panics", msg)
	}
	if len(gs) != len(want) {
		return mk("wrong-number-of-graphs", fmt.Sprintf("%d graphs decoded, %d records", len(gs), len(want)))
	}
	for i := range gs {
		got, prob := egFromLib(gs[i])
		if prob != "" {
			return mk("decoded-graph-malformed", prob)
		}
		if got.key() != want[i].key() {
			return mk("wrong-graph", fmt.Sprintf("record %d: %s want %s", i, got.key(), want[i].key()))
		}
	}
	// the decoded graphs are separate values: growing and editing one must leave the others equal to their records
	for i := range gs {
		all := make([]int, gs[i].N())
		for v := range all {
			all[v] = v
		}
		if msg, p := try(func() {
			gs[i].AddVertex(all)
			gs[i].AddVertex(nil)
			if gs[i].N() >= 2 {
				gs[i].RemoveEdge(0, 1)
			}
		}); p {
			return mk("decoded-graph-cannot-be-edited", msg)
		}
		for j := range gs {
			if j == i {
				continue
			}
			got, prob := egFromLib(gs[j])
			wantj := want[j]
			if j < i { // already edited above: rebuild what it must be now
				wantj = editedLikeAbove(want[j])
			}
			if prob != "" || got.key() != wantj.key() {
				return mk("decoded-graphs-share-storage", fmt.Sprintf("after editing decoded graph %d, decoded graph %d is %s %s, want %s", i, j, got.key(), prob, wantj.key()))
			}
		}
	}
	return nil
}

// editedLikeAbove applies AddVertex(all), AddVertex(nil), RemoveEdge(0,1) to the model graph.
func editedLikeAbove(g *EG) *EG {
	h := &EG{N: g.N + 2}
	for _, e := range g.Edges {
		h.Edges = append(h.Edges, e)
	}
	for v := 0; v < g.N; v++ {
		h.Edges = append(h.Edges, [2]int{v, g.N})
	}
	kept := h.Edges[:0]
	for _, e := range h.Edges {
		if !(e[0] == 0 && e[1] == 1) {
			kept = append(kept, e)
		}
	}
	h.Edges = kept
	h.norm()
	return h
}

func multiPool() []*EG {
	var pool []*EG
	for n := 0; n <= 3; n++ {
		for m := uint64(0); m < 1<<uint(edgeCount(n)); m++ {
			pool = append(pool, egFromMG(mgFromMask(n, m)))
		}
	}
	return pool
}

// structuredBig returns structured edge sets on n vertices (n large): empty, every single edge among the last
// three and first two vertices, paths, stars, a triangle plus isolated last vertex, complete (if small enough).
func structuredBig(n int, withComplete bool) []*EG {
	var out []*EG
	out = append(out, &EG{N: n})
	sp := []int{0, 1, n - 3, n - 2, n - 1}
	var vs []int
	for _, v := range sp {
		if v >= 0 && v < n {
			vs = append(vs, v)
		}
	}
	vs = sortedCopy(vs)
	var pairs [][2]int
	for i := range vs {
		for j := 0; j < i; j++ {
			if vs[i] != vs[j] {
				pairs = append(pairs, [2]int{vs[j], vs[i]})
			}
		}
	}
	for i, p := range pairs {
		out = append(out, &EG{N: n, Edges: [][2]int{p}})
		for j := 0; j < i; j++ {
			out = append(out, &EG{N: n, Edges: [][2]int{pairs[j], p}})
		}
	}
	if n >= 2 {
		path := &EG{N: n}
		star := &EG{N: n}
		starLast := &EG{N: n}
		pathToPenultimate := &EG{N: n}
		for i := 1; i < n; i++ {
			path.Edges = append(path.Edges, [2]int{i - 1, i})
			star.Edges = append(star.Edges, [2]int{0, i})
			starLast.Edges = append(starLast.Edges, [2]int{i - 1, n - 1})
			if i < n-1 {
				pathToPenultimate.Edges = append(pathToPenultimate.Edges, [2]int{i - 1, i})
			}
		}
		out = append(out, path, star, starLast, pathToPenultimate)
		// prefixes of the path: streams of every length (hits every 6-bit alignment)
		for l := 1; l < n && l <= 40; l++ {
			out = append(out, &EG{N: n, Edges: append([][2]int{}, path.Edges[:l]...)})
		}
	}
	if n >= 4 {
		out = append(out, &EG{N: n, Edges: [][2]int{{0, 1}, {0, 2}, {1, 2}}}, &EG{N: n, Edges: [][2]int{{n - 4, n - 3}, {n - 4, n - 2}, {n - 3, n - 2}}})
	}
	if withComplete {
		k := &EG{N: n}
		for j := 1; j < n; j++ {
			for i := 0; i < j; i++ {
				k.Edges = append(k.Edges, [2]int{i, j})
			}
		}
		out = append(out, k)
	}
	for _, g := range out {
		g.norm()
	}
	return out
}

func runC07(c *Ctx) {
	c.Level = "exploration"
	c.Rule = "every labelled graph with n<=6 (7 thorough) through graph6, sparse6 and Multicode in both directions against reference codecs written from formats.txt (graph6/Multicode byte-for-byte; sparse6 by decoding the library's string with the format decoder, which keeps loops, and the library decoding the reference string), with and without the optional header, dense and sparse inputs; structured edge sets at n in {8,16,17,32,33,62,63,64,100} and sparse6 at n in {258047,258048}; every Pruefer code and every labelled tree for n<=7 (8); every concatenation of <=3 Multicode records over the graphs with n<=3; non-trivial = graph with at least one edge"
	maxN := 6
	if c.Thorough() {
		maxN = 7
	}
	for n := 0; n <= maxN; n++ {
		total := int64(1) << uint(edgeCount(n))
		c.parFor(total, 256, func(lo, hi int64) {
			for m := lo; m < hi; m++ {
				g := egFromMG(mgFromMask(n, uint64(m)))
				for _, codec := range []string{"graph6", "sparse6", "multicode"} {
					reps := []string{"dense"}
					if n <= 5 {
						reps = append(reps, "sparse", "dense-bytes")
					}
					for _, rep := range reps {
						cc := codecCase{Codec: codec, N: n, Edges: g.Edges, Rep: rep}
						c.Check(func() *Failure { return evalCodec(cc) })
						if len(g.Edges) > 0 {
							c.Nontrivial(1)
						}
					}
				}
			}
		})
	}
	// size and padding boundaries
	for _, n := range []int{8, 16, 17, 32, 33, 62, 63, 64, 100} {
		gs := structuredBig(n, true)
		c.parFor(int64(len(gs)), 4, func(lo, hi int64) {
			for _, g := range gs[lo:hi] {
				for _, codec := range []string{"graph6", "sparse6", "multicode"} {
					cc := codecCase{Codec: codec, N: n, Edges: g.Edges, Rep: "dense"}
					c.Check(func() *Failure { return evalCodec(cc) })
					cc2 := cc
					cc2.Rep = "sparse"
					c.Check(func() *Failure { return evalCodec(cc2) })
					cc3 := cc
					cc3.Rep = "dense-bytes"
					c.Check(func() *Failure { return evalCodec(cc3) })
					c.Nontrivial(1)
				}
			}
		})
		c.Count(fmt.Sprintf("structured_n%d", n), int64(len(gs)))
	}
	// graph6 above n = 4095 (the top six bits of the 18-bit size field): a few sparse edge sets, dense representation
	for _, n := range []int{4095, 4096, 4097, 5000} {
		gs := structuredBig(n, false)
		var small []*EG
		for _, g := range gs {
			if len(g.Edges) <= 2 {
				small = append(small, g)
			}
		}
		if !c.Thorough() && len(small) > 4 {
			small = small[:4]
		}
		c.parFor(int64(len(small)), 1, func(lo, hi int64) {
			for _, g := range small[lo:hi] {
				for _, codec := range []string{"graph6", "sparse6"} {
					cc := codecCase{Codec: codec, N: n, Edges: g.Edges, Rep: "dense"}
					c.Check(func() *Failure { return evalCodec(cc) })
					c.Nontrivial(1)
				}
			}
		})
		c.Count(fmt.Sprintf("structured_graph6_n%d", n), int64(len(small)))
	}
	for _, n := range []int{258047, 258048} {
		gs := structuredBig(n, false)
		var small []*EG
		for _, g := range gs {
			if len(g.Edges) <= 3 {
				small = append(small, g)
			}
		}
		c.parFor(int64(len(small)), 1, func(lo, hi int64) {
			for _, g := range small[lo:hi] {
				cc := codecCase{Codec: "sparse6", N: n, Edges: g.Edges, Rep: "sparse"}
				c.Check(func() *Failure { return evalCodec(cc) })
				c.Nontrivial(1)
			}
		})
		c.Count(fmt.Sprintf("structured_sparse6_n%d", n), int64(len(small)))
	}
	// Pruefer: all codes
	pn := 7
	if c.Thorough() {
		pn = 8
	}
	for n := 2; n <= pn; n++ {
		total := int64(1)
		for i := 0; i < n-2; i++ {
			total *= int64(n)
		}
		c.parFor(total, 256, func(lo, hi int64) {
			for idx := lo; idx < hi; idx++ {
				code := make([]int, n-2)
				x := idx
				for i := range code {
					code[i] = int(x % int64(n))
					x /= int64(n)
				}
				cc := codecCase{Codec: "prufer", N: n, Code: code}
				c.Check(func() *Failure { return evalPruferCode(cc) })
				c.Nontrivial(1)
			}
		})
		c.Count(fmt.Sprintf("prufer_codes_n%d", n), total)
	}
	// Pruefer: all labelled trees, enumerated independently as tree-shaped edge masks
	tn := 6
	if c.Thorough() {
		tn = 7
	}
	for n := 2; n <= tn; n++ {
		total := int64(1) << uint(edgeCount(n))
		var trees int64
		c.parFor(total, 4096, func(lo, hi int64) {
			for m := lo; m < hi; m++ {
				mg := mgFromMask(n, uint64(m))
				if mg.edges() != n-1 {
					continue
				}
				g := egFromMG(mg)
				if !isTree(g) {
					continue
				}
				c.mu.Lock()
				trees++
				c.mu.Unlock()
				for _, rep := range []string{"dense", "sparse"} {
					cc := codecCase{Codec: "prufer", N: n, Edges: g.Edges, Rep: rep}
					c.Check(func() *Failure { return evalPruferTree(cc) })
				}
			}
		})
		want := int64(1)
		for i := 0; i < n-2; i++ {
			want *= int64(n)
		}
		if trees != want {
			c.HarnessError("tree enumeration found %d labelled trees on %d vertices (Cayley: %d)", trees, n, want)
		}
		c.Count(fmt.Sprintf("labelled_trees_n%d", n), trees)
	}
	// Multicode streams
	pool := multiPool()
	P := len(pool)
	var recs [][]int
	for a := 0; a < P; a++ {
		recs = append(recs, []int{a})
		for b := 0; b < P; b++ {
			recs = append(recs, []int{a, b})
			for d := 0; d < P; d++ {
				recs = append(recs, []int{a, b, d})
			}
		}
	}
	recs = append(recs, []int{})
	c.parFor(int64(len(recs)), 64, func(lo, hi int64) {
		for _, r := range recs[lo:hi] {
			cc := codecCase{Codec: "multicode-multiple", Recs: r}
			c.Check(func() *Failure { return evalMultiMultiple(cc, pool) })
			c.Nontrivial(1)
		}
	})
	c.Count("multicode_streams", int64(len(recs)))
	c.Sample("codec", codecCase{Codec: "sparse6", N: 4, Edges: [][2]int{{0, 1}, {0, 2}, {1, 2}}, Rep: "dense"})
	c.Sample("prufer", codecCase{Codec: "prufer", N: 5, Code: []int{3, 3, 0}})
	c.Assume("graph6 at the 8-byte size header (n >= 258048) needs a 5 GB string and is not covered")
}

func replayC07(kind string, raw json.RawMessage) *Failure {
	var cc codecCase
	if err := json.Unmarshal(raw, &cc); err != nil {
		return &Failure{Class: "replay/bad-file", What: err.Error()}
	}
	switch kind {
	case "codec":
		return evalCodec(cc)
	case "prufer-code":
		return evalPruferCode(cc)
	case "prufer-tree":
		return evalPruferTree(cc)
	case "multicode-multiple":
		return evalMultiMultiple(cc, multiPool())
	}
	return &Failure{Class: "replay/unsupported-kind", What: kind}
}

func init() { register("C07", runC07, replayC07) }
