package main

// Generic explicit-state breadth-first search over real implementation objects.
// A state is a concrete value S; Key must be an exact serialisation of everything that can
// influence the future of S (so merging equal keys is sound). Apply must not mutate its input.

import (
	"sync"
)

type bfsEdge[O any] struct {
	parent string
	op     O
	depth  int
}

type BFS[S any, O any] struct {
	Key      func(S) string
	Ops      func(S) []O
	Apply    func(S, O) (S, *Failure) // returns successor (fresh value) or a failure
	OnMerge  func(existingKey string, s S) *Failure
	OnNew    func(key string, s S)
	MaxDepth int // 0 = unbounded (closure)
	MaxState int64

	seen            map[string]bfsEdge[O]
	Closed          bool
	Depth           int
	NStates, NTrans int64
}

// Trace returns the operation list of the first-found (shortest) path to key.
func (b *BFS[S, O]) Trace(key string) []O {
	var ops []O
	for {
		e, ok := b.seen[key]
		if !ok || e.depth == 0 {
			break
		}
		ops = append(ops, e.op)
		key = e.parent
	}
	for i, j := 0, len(ops)-1; i < j; i, j = i+1, j-1 {
		ops[i], ops[j] = ops[j], ops[i]
	}
	return ops
}

type bfsSucc[S any, O any] struct {
	s      S
	key    string
	parent string
	op     O
}

// Run explores from the initial states. fail is called for every failure, with the trace
// (ops from an initial state) that leads to the failing transition.
func (b *BFS[S, O]) Run(c *Ctx, inits []S, fail func(f *Failure, trace []O)) {
	b.seen = map[string]bfsEdge[O]{}
	var frontier []S
	for _, s := range inits {
		k := b.Key(s)
		if _, ok := b.seen[k]; ok {
			continue
		}
		b.seen[k] = bfsEdge[O]{depth: 0}
		if b.OnNew != nil {
			b.OnNew(k, s)
		}
		frontier = append(frontier, s)
	}
	b.NStates = int64(len(frontier))
	depth := 0
	b.Closed = false
	for len(frontier) > 0 {
		if b.MaxDepth > 0 && depth >= b.MaxDepth {
			break
		}
		if c.Expired() {
			c.CapHit("BFS deadline")
			break
		}
		if b.MaxState > 0 && b.NStates >= b.MaxState {
			c.CapHit("BFS state cap")
			break
		}
		results := make([][]bfsSucc[S, O], len(frontier))
		var mu sync.Mutex
		var ntrans int64
		c.parFor(int64(len(frontier)), 8, func(lo, hi int64) {
			var local int64
			for i := lo; i < hi; i++ {
				s := frontier[i]
				pk := b.Key(s)
				for _, op := range b.Ops(s) {
					local++
					ns, f := b.Apply(s, op)
					if f != nil {
						mu.Lock()
						tr := append(b.Trace(pk), op)
						mu.Unlock()
						fail(f, tr)
						continue
					}
					k := b.Key(ns)
					if _, ok := b.seen[k]; ok { // seen is read-only during the parallel phase
						if b.OnMerge != nil {
							if f := b.OnMerge(k, ns); f != nil {
								mu.Lock()
								tr := append(b.Trace(pk), op)
								mu.Unlock()
								fail(f, tr)
							}
						}
						continue
					}
					results[i] = append(results[i], bfsSucc[S, O]{s: ns, key: k, parent: pk, op: op})
				}
			}
			mu.Lock()
			ntrans += local
			mu.Unlock()
		})
		b.NTrans += ntrans
		var next []S
		for _, rs := range results {
			for _, r := range rs {
				if _, ok := b.seen[r.key]; ok {
					if b.OnMerge != nil {
						if f := b.OnMerge(r.key, r.s); f != nil {
							fail(f, append(b.Trace(r.parent), r.op))
						}
					}
					continue
				}
				b.seen[r.key] = bfsEdge[O]{parent: r.parent, op: r.op, depth: depth + 1}
				if b.OnNew != nil {
					b.OnNew(r.key, r.s)
				}
				next = append(next, r.s)
			}
		}
		b.NStates += int64(len(next))
		frontier = next
		depth++
	}
	if len(frontier) == 0 {
		b.Closed = true
	}
	b.Depth = depth
	c.States(b.NStates)
	c.Trans(b.NTrans)
}
