package main

// Helpers for the DAWG properties C12-C14: reflection snapshot of the private node graph (by type
// shape, so that field renames do not matter), right-language minimal-automaton oracle, word universes.

import (
	"bytes"
	"fmt"
	"reflect"
	"sort"
	"strings"

	"github.com/Tom-Johnston/mamba/dawg"
)

type dawgShape struct {
	links, labels, final, numWords, id int
	ok                                 bool
}

var dShape = func() dawgShape {
	t := reflect.TypeOf(dawg.Dawg{})
	s := dawgShape{links: -1, labels: -1, final: -1, numWords: -1, id: -1}
	for i := 0; i < t.NumField(); i++ {
		f := t.Field(i).Type
		switch {
		case f.Kind() == reflect.Slice && f.Elem().Kind() == reflect.Ptr && f.Elem().Elem() == t && s.links < 0:
			s.links = i
		case f.Kind() == reflect.Slice && f.Elem().Kind() == reflect.Uint8 && s.labels < 0:
			s.labels = i
		case f.Kind() == reflect.Bool && s.final < 0:
			s.final = i
		case f.Kind() == reflect.Int && s.numWords < 0:
			s.numWords = i
		case f.Kind() == reflect.Uint64 && s.id < 0:
			s.id = i
		}
	}
	s.ok = s.links >= 0 && s.labels >= 0 && s.final >= 0
	return s
}()

type dawgSnap struct {
	Nodes int
	Words []string // accepted words in depth-first (= lexicographic if labels ascending) order
	Dump  string   // full structural dump (visit numbers, ids, numWords, final, labels, children)
	Err   string
}

// snapshotDawg walks the pointer graph of d by reflection.
func snapshotDawg(d *dawg.Dawg) dawgSnap {
	var sn dawgSnap
	if !dShape.ok {
		sn.Err = "dawg.Dawg no longer has the shape (links []*Dawg, labels []byte, final bool)"
		return sn
	}
	if d == nil {
		sn.Err = "nil dawg"
		return sn
	}
	num := map[uintptr]int{}
	var sb strings.Builder
	var visit func(v reflect.Value) int
	visit = func(v reflect.Value) int {
		p := v.Pointer()
		if n, ok := num[p]; ok {
			return n
		}
		n := len(num)
		num[p] = n
		e := v.Elem()
		links := e.Field(dShape.links)
		labels := e.Field(dShape.labels)
		kids := make([]int, links.Len())
		for i := 0; i < links.Len(); i++ {
			kids[i] = visit(links.Index(i))
		}
		fmt.Fprintf(&sb, "#%d", n)
		if dShape.id >= 0 {
			fmt.Fprintf(&sb, " id=%d", e.Field(dShape.id).Uint())
		}
		if dShape.numWords >= 0 {
			fmt.Fprintf(&sb, " nw=%d", e.Field(dShape.numWords).Int())
		}
		fmt.Fprintf(&sb, " f=%v L=%x K=%v;", e.Field(dShape.final).Bool(), labels.Bytes(), kids)
		return n
	}
	visit(reflect.ValueOf(d))
	sn.Nodes = len(num)
	sn.Dump = sb.String()
	// language by DFS (bounded: acyclic)
	var cur []byte
	var walk func(v reflect.Value, depth int)
	walk = func(v reflect.Value, depth int) {
		if depth > 100000 || len(sn.Words) > 5000000 {
			sn.Err = "graph too deep or language too large (cycle?)"
			return
		}
		e := v.Elem()
		if e.Field(dShape.final).Bool() {
			sn.Words = append(sn.Words, string(cur))
		}
		links := e.Field(dShape.links)
		labels := e.Field(dShape.labels).Bytes()
		if len(labels) != links.Len() {
			sn.Err = "labels and links differ in length"
			return
		}
		for i := 0; i < links.Len(); i++ {
			cur = append(cur, labels[i])
			walk(links.Index(i), depth+1)
			cur = cur[:len(cur)-1]
		}
	}
	walk(reflect.ValueOf(d), 0)
	return sn
}

// minimalNodes returns the number of states of the minimal acyclic automaton (no dead state) of the word set:
// the number of distinct right languages over all prefixes of words (1 for the empty set).
func minimalNodes(words []string) int {
	if len(words) == 0 {
		return 1
	}
	prefixes := map[string]bool{}
	for _, w := range words {
		for i := 0; i <= len(w); i++ {
			prefixes[w[:i]] = true
		}
	}
	langs := map[string]bool{}
	for p := range prefixes {
		var rl []string
		for _, w := range words {
			if strings.HasPrefix(w, p) {
				rl = append(rl, w[len(p):])
			}
		}
		sort.Strings(rl)
		langs[strings.Join(rl, "\x01")+"\x02"+fmt.Sprint(len(rl))] = true
	}
	return len(langs)
}

// wordsUpTo returns all words of length <= maxLen over the alphabet, in lexicographic (bytes.Compare) order.
func wordsUpTo(alpha []byte, maxLen int) []string {
	var out []string
	var rec func(cur []byte)
	rec = func(cur []byte) {
		out = append(out, string(cur))
		if len(cur) == maxLen {
			return
		}
		for _, a := range alpha {
			rec(append(cur, a))
		}
	}
	rec(nil)
	sort.Slice(out, func(i, j int) bool { return bytes.Compare([]byte(out[i]), []byte(out[j])) < 0 })
	return out
}

func toBytes(words []string, nilEmpty bool) [][]byte {
	out := make([][]byte, len(words))
	for i, w := range words {
		if w == "" && nilEmpty {
			out[i] = nil
		} else {
			out[i] = []byte(w)
		}
	}
	return out
}

// checkDawgAgainst verifies language, ranks, count and (optionally) minimality of d against the sorted word list.
func checkDawgAgainst(d *dawg.Dawg, words []string, probes []string, wantMinimal bool) (string, string) {
	if d == nil {
		return "nil-dawg", "nil *Dawg"
	}
	member := map[string]int{}
	for i, w := range words {
		member[w] = i
	}
	var cl, what string
	msg, p := try(func() {
		if n := d.NumberOfWords(); n != len(words) {
			cl, what = "NumberOfWords", fmt.Sprintf("NumberOfWords() = %d for %d words", n, len(words))
			return
		}
		for _, pr := range probes {
			rank, ok := d.Lookup([]byte(pr))
			wi, isMember := member[pr]
			if ok != isMember {
				cl, what = "Lookup-membership", fmt.Sprintf("Lookup(%q) = (%d,%v), member=%v", pr, rank, ok, isMember)
				return
			}
			if ok && rank != wi {
				cl, what = "Lookup-rank", fmt.Sprintf("Lookup(%q) = %d, lexicographic rank is %d", pr, rank, wi)
				return
			}
		}
		for _, w := range words { // members that the probe list may not contain
			rank, ok := d.Lookup([]byte(w))
			if !ok || rank != member[w] {
				cl, what = "Lookup-rank", fmt.Sprintf("Lookup(%q) = (%d,%v), lexicographic rank is %d", w, rank, ok, member[w])
				return
			}
		}
	})
	if p {
		return "observer-panic", msg
	}
	if cl != "" {
		return cl, what
	}
	sn := snapshotDawg(d)
	if sn.Err != "" {
		return "snapshot", sn.Err
	}
	if fmt.Sprint(sn.Words) != fmt.Sprint(words) && !(len(sn.Words) == 0 && len(words) == 0) {
		return "accepted-language", fmt.Sprintf("automaton accepts %d words %.80q, want %d words", len(sn.Words), sn.Words, len(words))
	}
	if wantMinimal {
		if mn := minimalNodes(words); sn.Nodes != mn {
			return "not-minimal", fmt.Sprintf("automaton has %d nodes, the minimal automaton has %d", sn.Nodes, mn)
		}
	}
	return "", ""
}

func subsetOf(universe []string, bits uint64) []string {
	var out []string
	for i, w := range universe {
		if bits>>uint(i)&1 == 1 {
			out = append(out, w)
		}
	}
	return out
}

// Byte strings in replay files: JSON strings must be valid UTF-8, so every byte b is written as the rune U+00bb
// (Latin-1 mapping) and read back the same way; printable ASCII stays readable.
func lat1enc(s string) string {
	r := make([]rune, len(s))
	for i := 0; i < len(s); i++ {
		r[i] = rune(s[i])
	}
	return string(r)
}

func lat1dec(s string) string {
	b := make([]byte, 0, len(s))
	for _, r := range s {
		b = append(b, byte(r))
	}
	return string(b)
}

func lat1encAll(ws []string) []string {
	if ws == nil {
		return nil
	}
	out := make([]string, len(ws))
	for i, w := range ws {
		out[i] = lat1enc(w)
	}
	return out
}

func lat1decAll(ws []string) []string {
	if ws == nil {
		return nil
	}
	out := make([]string, len(ws))
	for i, w := range ws {
		out[i] = lat1dec(w)
	}
	return out
}
