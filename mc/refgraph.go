package main

// Brute-force graph invariants on the adjacency bit-row model (n <= 8). Deliberately naive.

import (
	"math/bits"
	"sort"
)

func (m *MG) isClique(s uint64) bool {
	for t := s; t != 0; t &= t - 1 {
		v := bits.TrailingZeros64(t)
		if (s&^(1<<uint(v)))&^m.a[v] != 0 {
			return false
		}
	}
	return true
}

func (m *MG) isIndependent(s uint64) bool {
	for t := s; t != 0; t &= t - 1 {
		v := bits.TrailingZeros64(t)
		if s&m.a[v] != 0 {
			return false
		}
	}
	return true
}

func refCliqueNumber(m *MG) int {
	best := 0
	for s := uint64(0); s < 1<<uint(m.n); s++ {
		if c := bits.OnesCount64(s); c > best && m.isClique(s) {
			best = c
		}
	}
	return best
}

func refIndependenceNumber(m *MG) int {
	best := 0
	for s := uint64(0); s < 1<<uint(m.n); s++ {
		if c := bits.OnesCount64(s); c > best && m.isIndependent(s) {
			best = c
		}
	}
	return best
}

// refMaximalCliques returns all maximal cliques as bitmasks (the empty set for the null graph).
func refMaximalCliques(m *MG) []uint64 {
	var out []uint64
	for s := uint64(0); s < 1<<uint(m.n); s++ {
		if !m.isClique(s) {
			continue
		}
		maximal := true
		for v := 0; v < m.n; v++ {
			if s>>uint(v)&1 == 0 && m.isClique(s|1<<uint(v)) {
				maximal = false
				break
			}
		}
		if maximal {
			out = append(out, s)
		}
	}
	return out
}

// refCountColourings counts proper colourings with colours 0..k-1.
func refCountColourings(m *MG, k int) int {
	col := make([]int, m.n)
	var rec func(v int) int
	rec = func(v int) int {
		if v == m.n {
			return 1
		}
		cnt := 0
		for c := 0; c < k; c++ {
			ok := true
			for u := 0; u < v; u++ {
				if m.has(u, v) && col[u] == c {
					ok = false
					break
				}
			}
			if ok {
				col[v] = c
				cnt += rec(v + 1)
			}
		}
		return cnt
	}
	return rec(0)
}

func refColourable(m *MG, k int) bool {
	col := make([]int, m.n)
	var rec func(v int) bool
	rec = func(v int) bool {
		if v == m.n {
			return true
		}
		for c := 0; c < k; c++ {
			ok := true
			for u := 0; u < v; u++ {
				if m.has(u, v) && col[u] == c {
					ok = false
					break
				}
			}
			if ok {
				col[v] = c
				if rec(v + 1) {
					return true
				}
			}
		}
		return false
	}
	return rec(0)
}

func refChromaticNumber(m *MG) int {
	for k := 0; ; k++ {
		if refColourable(m, k) {
			return k
		}
	}
}

func refLineGraph(m *MG) *MG {
	es := egFromMG(m).Edges
	l := newMG(len(es))
	for i := range es {
		for j := 0; j < i; j++ {
			if es[i][0] == es[j][0] || es[i][0] == es[j][1] || es[i][1] == es[j][0] || es[i][1] == es[j][1] {
				l.set(i, j, true)
			}
		}
	}
	return l
}

func refChromaticIndex(m *MG) int { return refChromaticNumber(refLineGraph(m)) }

func refDegeneracy(m *MG) int {
	best := 0
	for s := uint64(1); s < 1<<uint(m.n); s++ {
		mind := m.n
		for t := s; t != 0; t &= t - 1 {
			v := bits.TrailingZeros64(t)
			if d := bits.OnesCount64(m.a[v] & s); d < mind {
				mind = d
			}
		}
		if mind > best {
			best = mind
		}
	}
	return best
}

const refInf = 1 << 20

func refAPSP(m *MG) [][]int {
	n := m.n
	d := make([][]int, n)
	for i := range d {
		d[i] = make([]int, n)
		for j := range d[i] {
			switch {
			case i == j:
				d[i][j] = 0
			case m.has(i, j):
				d[i][j] = 1
			default:
				d[i][j] = refInf
			}
		}
	}
	for k := 0; k < n; k++ {
		for i := 0; i < n; i++ {
			for j := 0; j < n; j++ {
				if d[i][k]+d[k][j] < d[i][j] {
					d[i][j] = d[i][k] + d[k][j]
				}
			}
		}
	}
	return d
}

// refComponentsOf returns the connected components of the subgraph induced on the vertex set s.
func refComponentsOf(m *MG, s uint64) []uint64 {
	var out []uint64
	left := s
	for left != 0 {
		v := bits.TrailingZeros64(left)
		comp := uint64(1) << uint(v)
		frontier := comp
		for frontier != 0 {
			u := bits.TrailingZeros64(frontier)
			frontier &= frontier - 1
			nw := m.a[u] & s &^ comp
			comp |= nw
			frontier |= nw
		}
		out = append(out, comp)
		left &^= comp
	}
	return out
}

func maskToList(s uint64) []int {
	r := []int{}
	for t := s; t != 0; t &= t - 1 {
		r = append(r, bits.TrailingZeros64(t))
	}
	return r
}

func refArticulation(m *MG) []int {
	all := uint64(1)<<uint(m.n) - 1
	base := len(refComponentsOf(m, all))
	r := []int{}
	for v := 0; v < m.n; v++ {
		if len(refComponentsOf(m, all&^(1<<uint(v)))) > base {
			r = append(r, v)
		}
	}
	return r
}

// refBlocks: maximal vertex sets inducing a connected subgraph without a cut vertex
// (an isolated vertex is the block {v}; a bridge is the block {u,v}).
func refBlocks(m *MG) []uint64 {
	var cands []uint64
	for s := uint64(1); s < 1<<uint(m.n); s++ {
		c := bits.OnesCount64(s)
		if len(refComponentsOf(m, s)) != 1 {
			continue
		}
		if c == 1 {
			if m.a[bits.TrailingZeros64(s)] == 0 {
				cands = append(cands, s)
			}
			continue
		}
		ok := true
		if c >= 3 {
			for t := s; t != 0; t &= t - 1 {
				v := bits.TrailingZeros64(t)
				if len(refComponentsOf(m, s&^(1<<uint(v)))) != 1 {
					ok = false
					break
				}
			}
		}
		if ok {
			cands = append(cands, s)
		}
	}
	var out []uint64
	for _, s := range cands {
		maximal := true
		for _, t := range cands {
			if t != s && s&t == s {
				maximal = false
				break
			}
		}
		if maximal {
			out = append(out, s)
		}
	}
	sort.Slice(out, func(i, j int) bool { return out[i] < out[j] })
	return out
}

// refCycleCounts[l] = number of simple cycles with l vertices.
func refCycleCounts(m *MG) []int {
	n := m.n
	cnt := make([]int, n+1)
	var path []int
	var rec func(start, v int, used uint64)
	rec = func(start, v int, used uint64) {
		for u := start; u < n; u++ {
			if !m.has(v, u) {
				continue
			}
			if u == start && len(path) >= 3 {
				cnt[len(path)]++
			}
			if u > start && used>>uint(u)&1 == 0 {
				path = append(path, u)
				rec(start, u, used|1<<uint(u))
				path = path[:len(path)-1]
			}
		}
	}
	for s := 0; s < n; s++ {
		path = []int{s}
		rec(s, s, 1<<uint(s))
	}
	for l := range cnt {
		cnt[l] /= 2
	}
	return cnt
}

func refGirth(m *MG) int {
	c := refCycleCounts(m)
	for l := 3; l < len(c); l++ {
		if c[l] > 0 {
			return l
		}
	}
	return -1
}

// refInducedPathCounts[l] = number of vertex subsets of size l+1 inducing a path (l edges); index 0 = n.
// refInducedCycleCounts[l] = number of vertex subsets of size l inducing a cycle.
func refInducedCounts(m *MG) (paths []int, cycles []int) {
	n := m.n
	paths = make([]int, n+1)
	cycles = make([]int, n+1)
	for s := uint64(1); s < 1<<uint(n); s++ {
		c := bits.OnesCount64(s)
		if len(refComponentsOf(m, s)) != 1 {
			continue
		}
		edges, maxd, ones := 0, 0, 0
		for t := s; t != 0; t &= t - 1 {
			v := bits.TrailingZeros64(t)
			d := bits.OnesCount64(m.a[v] & s)
			edges += d
			if d > maxd {
				maxd = d
			}
			if d == 1 {
				ones++
			}
		}
		edges /= 2
		if maxd <= 2 && edges == c-1 {
			paths[c-1]++
		}
		if c >= 3 && maxd == 2 && edges == c && ones == 0 {
			cycles[c]++
		}
	}
	return paths, cycles
}

// refEdgeChromaticIndex: chromatic index by Vizing's theorem (Delta or Delta+1) with an exhaustive search for a
// proper Delta-edge-colouring: edges ordered by a BFS over edges from a vertex of maximum degree, colours tried under
// the symmetry-breaking rule "a new colour only if all smaller colours are in use", a bit mask of used colours per
// vertex. Independent of the line-graph route of refChromaticIndex (used for n <= 7); practical for n = 8.
func refEdgeChromaticIndex(m *MG) int {
	n := m.n
	es := egFromMG(m).Edges
	if len(es) == 0 {
		return 0
	}
	delta, top := 0, 0
	for v := 0; v < n; v++ {
		if d := m.deg(v); d > delta {
			delta, top = d, v
		}
	}
	if len(es) > delta*(n/2) {
		return delta + 1 // overfull: more edges than Delta perfect-matching-sized colour classes can hold
	}
	// order: edges at `top` first, then edges sharing a vertex with an earlier edge
	order := make([][2]int, 0, len(es))
	used := make([]bool, len(es))
	touched := make([]bool, n)
	touched[top] = true
	for len(order) < len(es) {
		progress := false
		for i, e := range es {
			if !used[i] && (touched[e[0]] || touched[e[1]]) {
				used[i] = true
				order = append(order, e)
				touched[e[0]], touched[e[1]] = true, true
				progress = true
			}
		}
		if !progress {
			for i, e := range es {
				if !used[i] {
					touched[e[0]] = true
					break
				}
			}
		}
	}
	at := make([]uint32, n)
	var rec func(i, maxUsed int) bool
	rec = func(i, maxUsed int) bool {
		if i == len(order) {
			return true
		}
		a, b := order[i][0], order[i][1]
		busy := at[a] | at[b]
		lim := maxUsed + 1
		if lim >= delta {
			lim = delta - 1
		}
		for c := 0; c <= lim; c++ {
			if busy>>uint(c)&1 == 1 {
				continue
			}
			at[a] |= 1 << uint(c)
			at[b] |= 1 << uint(c)
			mu := maxUsed
			if c > mu {
				mu = c
			}
			if rec(i+1, mu) {
				return true
			}
			at[a] &^= 1 << uint(c)
			at[b] &^= 1 << uint(c)
		}
		return false
	}
	if rec(0, -1) {
		return delta
	}
	return delta + 1
}
