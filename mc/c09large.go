package main

// C09 on graphs with 13-20 vertices whose invariants are known in closed form: disjoint unions of trees and
// cycles (chromatic polynomial = product of k(k-1)^(t-1) and (k-1)^m + (-1)^m (k-1)), under relabellings.

import (
	"fmt"

	"github.com/Tom-Johnston/mamba/graph"
)

type compSpec struct {
	Kind string `json:"kind"` // path, star, cycle, cater
	Size int    `json:"size"`
}

type c09LargeCase struct {
	Comps []compSpec `json:"components"`
	Perm  []int      `json:"relabelling"`
	Rep   string     `json:"rep"`
}

func buildComps(comps []compSpec) (*EG, int) {
	g := &EG{}
	maxDeg := 0
	for _, cs := range comps {
		base := g.N
		switch cs.Kind {
		case "path":
			for i := 1; i < cs.Size; i++ {
				egAdd(g, base+i-1, base+i)
			}
		case "star":
			for i := 1; i < cs.Size; i++ {
				egAdd(g, base, base+i)
			}
		case "cycle":
			for i := 0; i < cs.Size; i++ {
				egAdd(g, base+i, base+(i+1)%cs.Size)
			}
		case "cater": // spine of ceil(size/2), a leaf on every spine vertex while vertices remain
			sp := (cs.Size + 1) / 2
			for i := 1; i < sp; i++ {
				egAdd(g, base+i-1, base+i)
			}
			for i := sp; i < cs.Size; i++ {
				egAdd(g, base+i-sp, base+i)
			}
		}
		g.N += cs.Size
	}
	g.norm()
	for _, nb := range g.adjacency() {
		if len(nb) > maxDeg {
			maxDeg = len(nb)
		}
	}
	return g, maxDeg
}

func ipow(b, e int) int {
	r := 1
	for i := 0; i < e; i++ {
		r *= b
	}
	return r
}

func evalC09Large(lc c09LargeCase) *Failure {
	g0, maxDeg := buildComps(lc.Comps)
	g := egRelabel(g0, lc.Perm)
	n := g.N
	mk := func(fn, cl, what string) *Failure {
		return &Failure{Class: "invariants/" + fn + "/" + cl + "/large", What: fmt.Sprintf("%s on %s %v relabelled by %v (n=%d): %s", fn, lc.Rep, lc.Comps, lc.Perm, n, what), Kind: "c09-large", Replay: lc}
	}
	anyEdge, oddCycle, anyCycle, triangle := len(g.Edges) > 0, false, false, false
	indep := 0
	for _, cs := range lc.Comps {
		switch cs.Kind {
		case "cycle":
			anyCycle = true
			if cs.Size%2 == 1 {
				oddCycle = true
			}
			if cs.Size == 3 {
				triangle = true
			}
			indep += cs.Size / 2
		case "path":
			indep += (cs.Size + 1) / 2
		case "star":
			if cs.Size <= 2 {
				indep++
			} else {
				indep += cs.Size - 1
			}
		case "cater":
			// leaves on the first size-sp spine vertices plus an alternating choice on the bare tail: brute force on the component
			sub, _ := buildComps([]compSpec{cs})
			m := newMG(sub.N)
			for _, e := range sub.Edges {
				m.set(e[0], e[1], true)
			}
			indep += refIndependenceNumber(m)
		}
	}
	wantChi, wantClique, wantDegen := 1, 1, 0
	if anyEdge {
		wantChi, wantClique, wantDegen = 2, 2, 1
	}
	if oddCycle {
		wantChi = 3
	}
	if triangle {
		wantClique = 3
	}
	if anyCycle {
		wantDegen = 2
	}
	wantIdx := maxDeg
	if oddCycle && maxDeg == 2 {
		wantIdx = 3
	}
	lg := libGraphFromEG(g, lc.Rep)
	var f *Failure
	msg, p := try(func() {
		if got := graph.CliqueNumber(lg); got != wantClique {
			f = mk("CliqueNumber", "wrong-value", fmt.Sprintf("%d want %d", got, wantClique))
			return
		}
		if got := graph.IndependenceNumber(lg); got != indep {
			f = mk("IndependenceNumber", "wrong-value", fmt.Sprintf("%d want %d", got, indep))
			return
		}
		chi, col := graph.ChromaticNumber(lg)
		if chi != wantChi || !usesExactly(col, chi) || !egProper(g, col) {
			f = mk("ChromaticNumber", "wrong-value", fmt.Sprintf("%d (colouring %v) want %d", chi, col, wantChi))
			return
		}
		if d, _ := graph.Degeneracy(lg); d != wantDegen {
			f = mk("Degeneracy", "wrong-value", fmt.Sprintf("%d want %d", d, wantDegen))
			return
		}
		if ci, _ := graph.ChromaticIndex(lg); ci != wantIdx {
			f = mk("ChromaticIndex", "wrong-value", fmt.Sprintf("%d want %d", ci, wantIdx))
			return
		}
		eg, ok := lg.(graph.EditableGraph)
		if ok && len(g.Edges) <= 17 {
			poly := graph.ChromaticPolynomial(eg)
			if len(poly) != n+1 {
				f = mk("ChromaticPolynomial", "wrong-length", fmt.Sprint(poly))
				return
			}
			for k := 0; k <= 5; k++ {
				want := 1
				for _, cs := range lc.Comps {
					if cs.Kind == "cycle" {
						sign := 1
						if cs.Size%2 == 1 {
							sign = -1
						}
						want *= ipow(k-1, cs.Size) + sign*(k-1)
					} else if cs.Size > 0 {
						want *= k * ipow(k-1, cs.Size-1)
					}
				}
				val, pw := 0, 1
				for _, c := range poly {
					val += c * pw
					pw *= k
				}
				if val != want {
					f = mk("ChromaticPolynomial", "wrong-value", fmt.Sprintf("P(G,%d) = %d from %v, closed form %d", k, val, poly, want))
					return
				}
			}
		}
	})
	if p {
		return mk("any", "panic", msg)
	}
	return f
}

func egProper(g *EG, col []int) bool {
	if len(col) != g.N {
		return false
	}
	for _, e := range g.Edges {
		if col[e[0]] == col[e[1]] {
			return false
		}
	}
	return true
}

func c09Large(c *Ctx) {
	specs := [][]compSpec{
		{{"star", 13}}, {{"star", 14}}, {{"star", 17}}, {{"path", 13}}, {{"path", 16}}, {{"cycle", 13}}, {{"cycle", 14}}, {{"cycle", 16}},
		{{"cycle", 5}, {"path", 8}}, {{"cycle", 3}, {"cycle", 4}, {"star", 6}}, {{"path", 2}, {"path", 2}, {"path", 2}, {"path", 2}, {"path", 2}, {"path", 2}, {"path", 2}, {"path", 1}},
		{{"cater", 16}}, {{"cater", 13}, {"cycle", 3}}, {{"star", 9}, {"cycle", 7}}, {{"path", 1}, {"path", 1}, {"star", 12}}, {{"cycle", 6}, {"cycle", 6}, {"path", 3}},
	}
	var cases []c09LargeCase
	for _, sp := range specs {
		g, _ := buildComps(sp)
		n := g.N
		id := make([]int, n)
		for i := range id {
			id[i] = i
		}
		perms := [][]int{id, relabelBattery(n, false, 0)[0], genTau(n)}
		k := 2
		if c.Thorough() {
			k = 10
		}
		for s := 1; s <= k; s++ {
			perms = append(perms, lcgPerm(n, uint64(s)*7+uint64(n)))
		}
		for pi, p := range perms {
			rep := "dense"
			if pi%2 == 1 {
				rep = "sparse"
			}
			cases = append(cases, c09LargeCase{Comps: sp, Perm: p, Rep: rep})
		}
	}
	c.parFor(int64(len(cases)), 1, func(lo, hi int64) {
		for _, lc := range cases[lo:hi] {
			lc := lc
			c.Check(func() *Failure { return evalC09Large(lc) })
			c.Nontrivial(1)
		}
	})
	c.SetCount("large_closed_form_cases", int64(len(cases)))
}
