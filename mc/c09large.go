package main

// C09 on graphs with 13-20 vertices whose invariants are known in closed form: disjoint unions of trees and
// cycles (chromatic polynomial = product of k(k-1)^(t-1) and (k-1)^m + (-1)^m (k-1)), under relabellings.

import (
	"fmt"

	"github.com/Tom-Johnston/mamba/graph"
)

type compSpec struct {
	Kind string `json:"kind"` // path, star, cycle, cater
	Size int    `json:"size"`
}

type c09LargeCase struct {
	Comps []compSpec `json:"components"`
	Perm  []int      `json:"relabelling"`
	Rep   string     `json:"rep"`
}

func buildComps(comps []compSpec) (*EG, int) {
	g := &EG{}
	maxDeg := 0
	for _, cs := range comps {
		base := g.N
		switch cs.Kind {
		case "path":
			for i := 1; i < cs.Size; i++ {
				egAdd(g, base+i-1, base+i)
			}
		case "star":
			for i := 1; i < cs.Size; i++ {
				egAdd(g, base, base+i)
			}
		case "cycle":
			for i := 0; i < cs.Size; i++ {
				egAdd(g, base+i, base+(i+1)%cs.Size)
			}
		case "cater": // spine of ceil(size/2), a leaf on every spine vertex while vertices remain
			sp := (cs.Size + 1) / 2
			for i := 1; i < sp; i++ {
				egAdd(g, base+i-1, base+i)
			}
			for i := sp; i < cs.Size; i++ {
				egAdd(g, base+i-sp, base+i)
			}
		}
		g.N += cs.Size
	}
	g.norm()
	for _, nb := range g.adjacency() {
		if len(nb) > maxDeg {
			maxDeg = len(nb)
		}
	}
	return g, maxDeg
}

func ipow(b, e int) int {
	r := 1
	for i := 0; i < e; i++ {
		r *= b
	}
	return r
}

func evalC09Large(lc c09LargeCase) *Failure {
	g0, maxDeg := buildComps(lc.Comps)
	g := egRelabel(g0, lc.Perm)
	n := g.N
	mk := func(fn, cl, what string) *Failure {
		return &Failure{Class: "invariants/" + fn + "/" + cl + "/large", What: fmt.Sprintf("%s on %s %v relabelled by %v (n=%d): %s", fn, lc.Rep, lc.Comps, lc.Perm, n, what), Kind: "c09-large", Replay: lc}
	}
	anyEdge, oddCycle, anyCycle, triangle := len(g.Edges) > 0, false, false, false
	indep := 0
	for _, cs := range lc.Comps {
		switch cs.Kind {
		case "cycle":
			anyCycle = true
			if cs.Size%2 == 1 {
				oddCycle = true
			}
			if cs.Size == 3 {
				triangle = true
			}
			indep += cs.Size / 2
		case "path":
			indep += (cs.Size + 1) / 2
		case "star":
			if cs.Size <= 2 {
				indep++
			} else {
				indep += cs.Size - 1
			}
		case "cater":
			// leaves on the first size-sp spine vertices plus an alternating choice on the bare tail: brute force on the component
			sub, _ := buildComps([]compSpec{cs})
			m := newMG(sub.N)
			for _, e := range sub.Edges {
				m.set(e[0], e[1], true)
			}
			indep += refIndependenceNumber(m)
		}
	}
	wantChi, wantClique, wantDegen := 1, 1, 0
	if anyEdge {
		wantChi, wantClique, wantDegen = 2, 2, 1
	}
	if oddCycle {
		wantChi = 3
	}
	if triangle {
		wantClique = 3
	}
	if anyCycle {
		wantDegen = 2
	}
	wantIdx := maxDeg
	if oddCycle && maxDeg == 2 {
		wantIdx = 3
	}
	lg := libGraphFromEG(g, lc.Rep)
	var f *Failure
	msg, p := try(func() {
		if got := graph.CliqueNumber(lg); got != wantClique {
			f = mk("CliqueNumber", "wrong-value", fmt.Sprintf("%d want %d", got, wantClique))
			return
		}
		if got := graph.IndependenceNumber(lg); got != indep {
			f = mk("IndependenceNumber", "wrong-value", fmt.Sprintf("%d want %d", got, indep))
			return
		}
		chi, col := graph.ChromaticNumber(lg)
		if chi != wantChi || !usesExactly(col, chi) || !egProper(g, col) {
			f = mk("ChromaticNumber", "wrong-value", fmt.Sprintf("%d (colouring %v) want %d", chi, col, wantChi))
			return
		}
		if d, _ := graph.Degeneracy(lg); d != wantDegen {
			f = mk("Degeneracy", "wrong-value", fmt.Sprintf("%d want %d", d, wantDegen))
			return
		}
		if ci, _ := graph.ChromaticIndex(lg); ci != wantIdx {
			f = mk("ChromaticIndex", "wrong-value", fmt.Sprintf("%d want %d", ci, wantIdx))
			return
		}
		eg, ok := lg.(graph.EditableGraph)
		if ok && len(g.Edges) <= 17 {
			poly := graph.ChromaticPolynomial(eg)
			if len(poly) != n+1 {
				f = mk("ChromaticPolynomial", "wrong-length", fmt.Sprint(poly))
				return
			}
			for k := 0; k <= 5; k++ {
				want := 1
				for _, cs := range lc.Comps {
					if cs.Kind == "cycle" {
						sign := 1
						if cs.Size%2 == 1 {
							sign = -1
						}
						want *= ipow(k-1, cs.Size) + sign*(k-1)
					} else if cs.Size > 0 {
						want *= k * ipow(k-1, cs.Size-1)
					}
				}
				val, pw := 0, 1
				for _, c := range poly {
					val += c * pw
					pw *= k
				}
				if val != want {
					f = mk("ChromaticPolynomial", "wrong-value", fmt.Sprintf("P(G,%d) = %d from %v, closed form %d", k, val, poly, want))
					return
				}
			}
		}
	})
	if p {
		return mk("any", "panic", msg)
	}
	return f
}

func egProper(g *EG, col []int) bool {
	if len(col) != g.N {
		return false
	}
	for _, e := range g.Edges {
		if col[e[0]] == col[e[1]] {
			return false
		}
	}
	return true
}

// colouring witnesses on graphs with hundreds of vertices whose chromatic number is known by construction:
// vertices that stay uncoloured while 254..513 of their neighbours receive one colour (counters narrower than an
// int wrap at 256), hubs, and wide bipartite parts.
type c09WideCase struct {
	Family string `json:"family"` // apex-book | biclique+pendant | wheel | double-star
	T      int    `json:"t"`
	Leaves int    `json:"leaves,omitempty"`
	Rep    string `json:"rep"`
	Rev    bool   `json:"reversed_labels,omitempty"`
}

func buildWide(wc c09WideCase) (*EG, int) {
	g := &EG{}
	chi := 2
	t := wc.T
	switch wc.Family {
	case "apex-book":
		// triangle x,h1,h2; x carries leaves; b_1..b_t joined to h1 and h2; w joined to every b_i
		x, h1, h2 := 0, 1, 2
		egAdd(g, x, h1)
		egAdd(g, x, h2)
		egAdd(g, h1, h2)
		v := 3
		for i := 0; i < wc.Leaves; i++ {
			egAdd(g, x, v)
			v++
		}
		w := v
		v++
		for i := 0; i < t; i++ {
			egAdd(g, h1, v)
			egAdd(g, h2, v)
			egAdd(g, w, v)
			v++
		}
		g.N = v
		chi = 3
	case "biclique+pendant":
		// K(t,2) with a pendant vertex on one of the two
		for i := 0; i < t; i++ {
			egAdd(g, i, t)
			egAdd(g, i, t+1)
		}
		egAdd(g, t, t+2)
		g.N = t + 3
	case "wheel":
		for i := 0; i < t; i++ {
			egAdd(g, i, (i+1)%t)
			egAdd(g, i, t)
		}
		g.N = t + 1
		chi = 3 + t%2
	case "double-star":
		egAdd(g, 0, 1)
		for i := 0; i < t; i++ {
			egAdd(g, 0, 2+i)
			egAdd(g, 1, 2+t+i)
		}
		g.N = 2 + 2*t
	}
	g.norm()
	if wc.Rev {
		p := make([]int, g.N)
		for i := range p {
			p[i] = g.N - 1 - i
		}
		g = egRelabel(g, p)
	}
	return g, chi
}

func evalC09Wide(wc c09WideCase) *Failure {
	g, wantChi := buildWide(wc)
	mk := func(fn, cl, what string) *Failure {
		return &Failure{Class: "invariants/" + fn + "/" + cl + "/wide", What: fmt.Sprintf("%s on %s %s(t=%d, leaves=%d, reversed=%v) n=%d: %s", fn, wc.Rep, wc.Family, wc.T, wc.Leaves, wc.Rev, g.N, what), Kind: "c09-wide", Replay: wc}
	}
	lg := libGraphFromEG(g, wc.Rep)
	var f *Failure
	msg, p := try(func() {
		chi, col := graph.ChromaticNumber(lg)
		if chi != wantChi {
			f = mk("ChromaticNumber", "wrong-value", fmt.Sprintf("%d want %d", chi, wantChi))
			return
		}
		if !usesExactly(col, chi) || !egProper(g, col) {
			f = mk("ChromaticNumber", "witness-not-a-proper-colouring", fmt.Sprintf("%d colours, witness is not a proper colouring with exactly that many colours", chi))
			return
		}
		for k := wantChi - 1; k <= wantChi+1; k++ {
			ok, col := graph.IsKColorable(lg, k)
			if ok != (k >= wantChi) {
				f = mk("IsKColorable", "wrong-value", fmt.Sprintf("k=%d: %v", k, ok))
				return
			}
			if ok && (len(col) != g.N || !egProper(g, col) || maxOf(col) >= k) {
				f = mk("IsKColorable", "witness-not-a-proper-colouring", fmt.Sprintf("k=%d", k))
				return
			}
		}
	})
	if p {
		return mk("any", "panic", msg)
	}
	return f
}

func maxOf(a []int) int {
	m := -1
	for _, x := range a {
		if x > m {
			m = x
		}
	}
	return m
}

func c09Wide(c *Ctx) {
	var cases []c09WideCase
	ts := []int{254, 255, 256, 257, 258}
	if c.Thorough() {
		ts = append(ts, 300, 510, 511, 512, 513)
	}
	for _, t := range ts {
		for _, rep := range []string{"dense", "sparse"} {
			for _, rev := range []bool{false, true} {
				for _, lv := range []int{0, 3, t + 1} {
					cases = append(cases, c09WideCase{Family: "apex-book", T: t, Leaves: lv, Rep: rep, Rev: rev})
				}
				cases = append(cases, c09WideCase{Family: "biclique+pendant", T: t, Rep: rep, Rev: rev})
				cases = append(cases, c09WideCase{Family: "wheel", T: t, Rep: rep, Rev: rev})
				cases = append(cases, c09WideCase{Family: "double-star", T: t, Rep: rep, Rev: rev})
			}
		}
	}
	c.parFor(int64(len(cases)), 1, func(lo, hi int64) {
		for _, wc := range cases[lo:hi] {
			wc := wc
			c.Check(func() *Failure { return evalC09Wide(wc) })
			c.Nontrivial(1)
		}
	})
	c.SetCount("wide_colouring_cases", int64(len(cases)))
}

func c09Large(c *Ctx) {
	specs := [][]compSpec{
		{{"star", 13}}, {{"star", 14}}, {{"star", 17}}, {{"path", 13}}, {{"path", 16}}, {{"cycle", 13}}, {{"cycle", 14}}, {{"cycle", 16}},
		{{"cycle", 5}, {"path", 8}}, {{"cycle", 3}, {"cycle", 4}, {"star", 6}}, {{"path", 2}, {"path", 2}, {"path", 2}, {"path", 2}, {"path", 2}, {"path", 2}, {"path", 2}, {"path", 1}},
		{{"cater", 16}}, {{"cater", 13}, {"cycle", 3}}, {{"star", 9}, {"cycle", 7}}, {{"path", 1}, {"path", 1}, {"star", 12}}, {{"cycle", 6}, {"cycle", 6}, {"path", 3}},
	}
	var cases []c09LargeCase
	for _, sp := range specs {
		g, _ := buildComps(sp)
		n := g.N
		id := make([]int, n)
		for i := range id {
			id[i] = i
		}
		perms := [][]int{id, relabelBattery(n, false, 0)[0], genTau(n)}
		k := 2
		if c.Thorough() {
			k = 10
		}
		for s := 1; s <= k; s++ {
			perms = append(perms, lcgPerm(n, uint64(s)*7+uint64(n)))
		}
		for pi, p := range perms {
			rep := "dense"
			if pi%2 == 1 {
				rep = "sparse"
			}
			cases = append(cases, c09LargeCase{Comps: sp, Perm: p, Rep: rep})
		}
	}
	c.parFor(int64(len(cases)), 1, func(lo, hi int64) {
		for _, lc := range cases[lo:hi] {
			lc := lc
			c.Check(func() *Failure { return evalC09Large(lc) })
			c.Nontrivial(1)
		}
	})
	c.SetCount("large_closed_form_cases", int64(len(cases)))
}
