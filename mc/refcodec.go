package main

// Reference codecs written from nauty's formats.txt (graph6, sparse6), the Multicode description
// and the textbook Pruefer correspondence. Independent of graph/encoding.go.

import (
	"errors"
	"fmt"
	"math/bits"
	"sort"
	"strings"
)

// EG is a plain edge-list graph used by the codecs (n may be large).
type EG struct {
	N     int
	Edges [][2]int // u < v, sorted by (v, u), no repeats
	Loops int      // loops seen while decoding (not representable in a simple graph)
}

func (g *EG) norm() {
	for i := range g.Edges {
		if g.Edges[i][0] > g.Edges[i][1] {
			g.Edges[i][0], g.Edges[i][1] = g.Edges[i][1], g.Edges[i][0]
		}
	}
	sort.Slice(g.Edges, func(i, j int) bool {
		if g.Edges[i][1] != g.Edges[j][1] {
			return g.Edges[i][1] < g.Edges[j][1]
		}
		return g.Edges[i][0] < g.Edges[j][0]
	})
	out := g.Edges[:0]
	for i, e := range g.Edges {
		if i == 0 || e != g.Edges[i-1] {
			out = append(out, e)
		}
	}
	g.Edges = out
}

func (g *EG) key() string { return fmt.Sprint(g.N, g.Edges) }

func egFromMG(m *MG) *EG {
	g := &EG{N: m.n}
	for j := 1; j < m.n; j++ {
		for i := 0; i < j; i++ {
			if m.has(i, j) {
				g.Edges = append(g.Edges, [2]int{i, j})
			}
		}
	}
	return g
}

func egFromGraph(n int, isEdge func(i, j int) bool) *EG {
	g := &EG{N: n}
	for j := 1; j < n; j++ {
		for i := 0; i < j; i++ {
			if isEdge(i, j) {
				g.Edges = append(g.Edges, [2]int{i, j})
			}
		}
	}
	return g
}

func (g *EG) adjacency() [][]int {
	nb := make([][]int, g.N)
	for _, e := range g.Edges {
		nb[e[0]] = append(nb[e[0]], e[1])
		nb[e[1]] = append(nb[e[1]], e[0])
	}
	for i := range nb {
		sort.Ints(nb[i])
	}
	return nb
}

// ---- N(n) size field ----

func refSizeField(n int) []byte {
	switch {
	case n <= 62:
		return []byte{byte(n + 63)}
	case n <= 258047:
		return []byte{126, byte(n>>12&63) + 63, byte(n>>6&63) + 63, byte(n&63) + 63}
	default:
		return []byte{126, 126, byte(n>>30&63) + 63, byte(n>>24&63) + 63, byte(n>>18&63) + 63, byte(n>>12&63) + 63, byte(n>>6&63) + 63, byte(n&63) + 63}
	}
}

// refParseSize parses N(n) at the start of s (all bytes must be in 63..126); returns n and the bytes consumed.
func refParseSize(s string) (n uint64, used int, err error) {
	if len(s) == 0 {
		return 0, 0, errors.New("no size field")
	}
	for i := 0; i < len(s) && i < 8; i++ {
		if s[i] < 63 || s[i] > 126 {
			return 0, 0, errors.New("byte out of range in size field")
		}
	}
	if s[0] != 126 {
		return uint64(s[0] - 63), 1, nil
	}
	if len(s) >= 2 && s[1] != 126 {
		if len(s) < 4 {
			return 0, 0, errors.New("truncated size field")
		}
		return uint64(s[1]-63)<<12 | uint64(s[2]-63)<<6 | uint64(s[3]-63), 4, nil
	}
	if len(s) < 8 {
		return 0, 0, errors.New("truncated size field")
	}
	for i := 2; i < 8; i++ {
		n = n<<6 | uint64(s[i]-63)
	}
	return n, 8, nil
}

// ---- graph6 ----

func refGraph6Encode(g *EG) string {
	out := refSizeField(g.N)
	n := g.N
	nbits := n * (n - 1) / 2
	data := make([]byte, (nbits+5)/6)
	for _, e := range g.Edges {
		idx := e[1]*(e[1]-1)/2 + e[0]
		data[idx/6] |= 1 << uint(5-idx%6)
	}
	for _, b := range data {
		out = append(out, b+63)
	}
	return string(out)
}

func refGraph6Decode(s string) (*EG, error) {
	s = strings.TrimPrefix(s, ">>graph6<<")
	for i := 0; i < len(s); i++ {
		if s[i] < 63 || s[i] > 126 {
			return nil, errors.New("byte out of range")
		}
	}
	n64, used, err := refParseSize(s)
	if err != nil {
		return nil, err
	}
	n := int(n64)
	nbits := n * (n - 1) / 2
	if len(s)-used < (nbits+5)/6 {
		return nil, errors.New("too short")
	}
	g := &EG{N: n}
	idx := 0
	for j := 1; j < n; j++ {
		for i := 0; i < j; i++ {
			if (s[used+idx/6]-63)>>uint(5-idx%6)&1 == 1 {
				g.Edges = append(g.Edges, [2]int{i, j})
			}
			idx++
		}
	}
	return g, nil
}

// ---- sparse6 ----

func sparse6K(n int) int {
	if n <= 1 {
		return 0
	}
	return bits.Len(uint(n - 1))
}

type bitWriter struct {
	out  []byte
	cur  byte
	npos int
}

func (w *bitWriter) bit(b int) {
	if b != 0 {
		w.cur |= 1 << uint(5-w.npos)
	}
	w.npos++
	if w.npos == 6 {
		w.out = append(w.out, w.cur+63)
		w.cur, w.npos = 0, 0
	}
}

func (w *bitWriter) num(x, k int) {
	for j := k - 1; j >= 0; j-- {
		w.bit(x >> uint(j) & 1)
	}
}

// refSparse6Encode follows nauty's ntos6, including the special padding rule.
func refSparse6Encode(g *EG) string {
	n := g.N
	k := sparse6K(n)
	w := &bitWriter{out: append([]byte{':'}, refSizeField(n)...)}
	cur := 0
	nb := g.adjacency()
	for v := 0; v < n; v++ {
		for _, u := range nb[v] {
			if u > v {
				break
			}
			if v == cur {
				w.bit(0)
				w.num(u, k)
			} else if v == cur+1 {
				cur = v
				w.bit(1)
				w.num(u, k)
			} else {
				cur = v
				w.bit(1)
				w.num(v, k)
				w.bit(0)
				w.num(u, k)
			}
		}
	}
	if w.npos != 0 {
		free := 6 - w.npos
		if k < 6 && n == 1<<uint(k) && free >= k+1 && cur == n-2 {
			w.bit(0)
		}
		for w.npos != 0 {
			w.bit(1)
		}
	}
	return string(w.out)
}

// refSparse6Decode decodes per formats.txt / nauty's stringtograph: an incomplete trailing unit is discarded,
// units with v >= n are ignored. Loops are counted (nauty would add them; a simple graph cannot hold them).
func refSparse6Decode(s string) (*EG, error) {
	s = strings.TrimPrefix(s, ">>sparse6<<")
	if len(s) == 0 || s[0] != ':' {
		return nil, errors.New("missing ':'")
	}
	s = s[1:]
	for i := 0; i < len(s); i++ {
		if s[i] < 63 || s[i] > 126 {
			return nil, errors.New("byte out of range")
		}
	}
	n64, used, err := refParseSize(s)
	if err != nil {
		return nil, err
	}
	n := int(n64)
	k := sparse6K(n)
	data := s[used:]
	total := len(data) * 6
	pos := 0
	read := func(c int) int {
		x := 0
		for i := 0; i < c; i++ {
			x = x<<1 | int((data[pos/6]-63)>>uint(5-pos%6)&1)
			pos++
		}
		return x
	}
	g := &EG{N: n}
	v := 0
	for total-pos >= 1+k {
		b := read(1)
		x := read(k)
		if b == 1 {
			v++
		}
		if x > v {
			v = x
		} else if v < n {
			if x == v {
				g.Loops++
			} else {
				g.Edges = append(g.Edges, [2]int{x, v})
			}
		}
		if k == 0 && v >= n {
			break
		}
	}
	g.norm()
	return g, nil
}

// ---- Multicode ----

func refMulticodeEncode(g *EG) []byte {
	n := g.N
	if n == 0 {
		return []byte{0}
	}
	out := []byte{byte(n)}
	nb := g.adjacency()
	for i := 0; i < n-1; i++ {
		for _, j := range nb[i] {
			if j > i {
				out = append(out, byte(j+1))
			}
		}
		out = append(out, 0)
	}
	return out
}

// refMulticodeParse reads one Multicode record by the format's rules: the number of vertices n, then for each of
// the vertices 1..n-1 the list of its larger neighbours (numbered from 1, in any order, none twice) closed by a 0.
func refMulticodeParse(b []byte) (*EG, string) {
	if len(b) == 0 {
		return nil, "empty"
	}
	n := int(b[0])
	g := &EG{N: n}
	seen := map[[2]int]bool{}
	if n <= 1 {
		// formats in the wild write a lone size byte for n<=1; the library writes exactly that
		if len(b) != 1 {
			return nil, fmt.Sprintf("%d bytes after the size byte of a graph with %d vertices", len(b)-1, n)
		}
		return g, ""
	}
	pos := 1
	for v := 1; v <= n-1; v++ {
		for {
			if pos >= len(b) {
				return nil, fmt.Sprintf("record ends inside the list of vertex %d", v)
			}
			x := int(b[pos])
			pos++
			if x == 0 {
				break
			}
			if x <= v || x > n {
				return nil, fmt.Sprintf("entry %d in the list of vertex %d is not a larger vertex <= %d", x, v, n)
			}
			if seen[[2]int{v - 1, x - 1}] {
				return nil, fmt.Sprintf("edge %d-%d listed twice", v, x)
			}
			seen[[2]int{v - 1, x - 1}] = true
			g.Edges = append(g.Edges, [2]int{v - 1, x - 1})
		}
	}
	if pos != len(b) {
		return nil, fmt.Sprintf("%d bytes after the last list", len(b)-pos)
	}
	g.norm()
	return g, ""
}

// ---- Pruefer ----

func refPruferEncode(g *EG) []int {
	n := g.N
	nb := g.adjacency()
	deg := make([]int, n)
	removed := make([]bool, n)
	for i := range nb {
		deg[i] = len(nb[i])
	}
	var code []int
	for step := 0; step < n-2; step++ {
		for v := 0; v < n; v++ {
			if !removed[v] && deg[v] == 1 {
				for _, u := range nb[v] {
					if !removed[u] {
						code = append(code, u)
						deg[u]--
						break
					}
				}
				removed[v] = true
				deg[v] = 0
				break
			}
		}
	}
	if code == nil {
		code = []int{}
	}
	return code
}

func refPruferDecode(code []int) *EG {
	n := len(code) + 2
	deg := make([]int, n)
	for i := range deg {
		deg[i] = 1
	}
	for _, v := range code {
		deg[v]++
	}
	g := &EG{N: n}
	for _, v := range code {
		for j := 0; j < n; j++ {
			if deg[j] == 1 {
				g.Edges = append(g.Edges, [2]int{j, v})
				deg[j]--
				deg[v]--
				break
			}
		}
	}
	var last []int
	for j := 0; j < n; j++ {
		if deg[j] == 1 {
			last = append(last, j)
		}
	}
	g.Edges = append(g.Edges, [2]int{last[0], last[1]})
	g.norm()
	return g
}

func isTree(g *EG) bool {
	if len(g.Edges) != g.N-1 {
		return false
	}
	nb := g.adjacency()
	seen := make([]bool, g.N)
	st := []int{0}
	seen[0] = true
	cnt := 1
	for len(st) > 0 {
		v := st[len(st)-1]
		st = st[:len(st)-1]
		for _, u := range nb[v] {
			if !seen[u] {
				seen[u] = true
				cnt++
				st = append(st, u)
			}
		}
	}
	return cnt == g.N
}
