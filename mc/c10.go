package main

// C10: distance, connectivity and cycle-structure invariants equal their definitions.

import (
	"encoding/json"
	"fmt"
	"sort"
	"sync/atomic"
	"time"

	"github.com/Tom-Johnston/mamba/graph"
)

type invC10 struct {
	girth     int
	cycles    []int
	indPaths  []int
	indCycles []int
}

func computeInvC10(m *MG) *invC10 {
	iv := &invC10{}
	iv.cycles = refCycleCounts(m)
	iv.girth = -1
	for l := 3; l < len(iv.cycles); l++ {
		if iv.cycles[l] > 0 {
			iv.girth = l
			break
		}
	}
	iv.indPaths, iv.indCycles = refInducedCounts(m)
	return iv
}

func listsKey(ls [][]int) string {
	ss := make([]string, len(ls))
	for i, l := range ls {
		ss[i] = fmt.Sprint(l)
	}
	sort.Strings(ss)
	return fmt.Sprint(ss)
}

func evalC10(gc giCase, iv *invC10) *Failure {
	n, mask, rep := gc.N, gc.Mask, gc.Rep
	m := mgFromMask(n, mask)
	if iv == nil {
		iv = computeInvC10(m)
	}
	mk := func(fn, cl, what string) *Failure {
		sfx := ""
		if n <= 1 {
			sfx = fmt.Sprintf("/n=%d", n)
		}
		return &Failure{Class: "invariants/" + fn + "/" + cl + sfx, What: fmt.Sprintf("%s on %s %s (n=%d): %s", fn, rep, g6(n, mask), n, what), Kind: "c10", Replay: gc}
	}
	g := graphInRep(rep, n, mask)
	var f *Failure
	run := func(fn string, body func() *Failure) bool {
		var r *Failure
		if msg, p := try(func() { r = body() }); p {
			f = mk(fn, "panic", msg)
			return false
		}
		if r != nil {
			f = r
			return false
		}
		return true
	}
	d := refAPSP(m)
	all := uint64(1)<<uint(n) - 1
	comps := refComponentsOf(m, all)
	connected := len(comps) <= 1
	ok := run("Distance", func() *Failure {
		for i := 0; i < n; i++ {
			for j := 0; j < n; j++ {
				want := d[i][j]
				if want >= refInf {
					want = -1
				}
				if got := graph.Distance(g, i, j); got != want {
					return mk("Distance", "wrong-value", fmt.Sprintf("Distance(%d,%d) = %d want %d", i, j, got, want))
				}
			}
		}
		return nil
	}) && run("Eccentricity", func() *Failure {
		e := graph.Eccentricity(g)
		if len(e) != n {
			return mk("Eccentricity", "wrong-length", fmt.Sprint(e))
		}
		maxE, minE := 0, refInf
		for i := 0; i < n; i++ {
			want := 0
			for j := 0; j < n; j++ {
				if d[i][j] > want {
					want = d[i][j]
				}
			}
			if !connected {
				want = -1
			}
			if e[i] != want {
				return mk("Eccentricity", "wrong-value", fmt.Sprintf("eccentricity of %d is %d want %d (%v)", i, e[i], want, e))
			}
			if want > maxE {
				maxE = want
			}
			if want < minE {
				minE = want
			}
		}
		wantD, wantR := maxE, minE
		if n == 0 {
			wantD, wantR = 0, 0
		} else if !connected {
			wantD, wantR = -1, -1
		}
		if got := graph.Diameter(g); got != wantD {
			return mk("Diameter", "wrong-value", fmt.Sprintf("got %d want %d", got, wantD))
		}
		if got := graph.Radius(g); got != wantR {
			return mk("Radius", "wrong-value", fmt.Sprintf("got %d want %d", got, wantR))
		}
		return nil
	}) && run("Girth", func() *Failure {
		if got := graph.Girth(g); got != iv.girth {
			return mk("Girth", "wrong-value", fmt.Sprintf("got %d want %d", got, iv.girth))
		}
		return nil
	}) && run("ConnectedComponents", func() *Failure {
		cs := graph.ConnectedComponents(g)
		var want [][]int
		for _, s := range comps {
			want = append(want, maskToList(s))
		}
		if listsKey(cs) != listsKey(want) {
			return mk("ConnectedComponents", "wrong-components", fmt.Sprintf("got %v want %v", cs, want))
		}
		return nil
	}) && run("ConnectedComponent", func() *Failure {
		for v := 0; v < n; v++ {
			got := graph.ConnectedComponent(g, v)
			for _, s := range comps {
				if s>>uint(v)&1 == 1 && !intsEq(got, maskToList(s)) {
					return mk("ConnectedComponent", "wrong-component", fmt.Sprintf("component of %d: got %v want %v", v, got, maskToList(s)))
				}
			}
		}
		return nil
	}) && run("BiconnectedComponents", func() *Failure {
		blocks, arts := graph.BiconnectedComponents(g)
		var want [][]int
		for _, s := range refBlocks(m) {
			want = append(want, maskToList(s))
		}
		for _, b := range blocks {
			if !sort.IntsAreSorted(b) {
				return mk("BiconnectedComponents", "block-not-sorted", fmt.Sprint(blocks))
			}
		}
		if len(blocks) != len(want) || listsKey(blocks) != listsKey(want) {
			return mk("BiconnectedComponents", "wrong-blocks", fmt.Sprintf("got %v want %v", blocks, want))
		}
		wa := refArticulation(m)
		ga := sortedCopy(arts)
		for i := 1; i < len(ga); i++ {
			if ga[i] == ga[i-1] {
				return mk("BiconnectedComponents", "articulation-vertex-repeated", fmt.Sprint(arts))
			}
		}
		if !intsEq(ga, wa) {
			return mk("BiconnectedComponents", "wrong-articulation-vertices", fmt.Sprintf("got %v want %v", arts, wa))
		}
		return nil
	}) && run("NumberOfInducedPaths", func() *Failure {
		for maxLen := -1; maxLen <= n+1; maxLen++ {
			r := graph.NumberOfInducedPaths(g, maxLen)
			if len(r) != n {
				return mk("NumberOfInducedPaths", "wrong-length", fmt.Sprintf("maxLength %d: %v", maxLen, r))
			}
			bound := maxLen
			if maxLen < 0 || maxLen > n-1 {
				bound = n - 1
			}
			for l := 0; l < n; l++ {
				want := iv.indPaths[l]
				if l == 0 {
					want = n
				}
				if r[l] != want && (l <= bound || r[l] != 0) {
					return mk("NumberOfInducedPaths", "wrong-count", fmt.Sprintf("maxLength %d: %v, there are %d induced paths with %d edges", maxLen, r, want, l))
				}
			}
		}
		return nil
	}) && run("NumberOfInducedCycles", func() *Failure {
		for maxLen := -1; maxLen <= n+1; maxLen++ {
			r := graph.NumberOfInducedCycles(g, maxLen)
			if len(r) != n+1 {
				return mk("NumberOfInducedCycles", "wrong-length", fmt.Sprintf("maxLength %d: %v", maxLen, r))
			}
			bound := maxLen
			if maxLen < 0 || maxLen > n {
				bound = n
			}
			for l := 0; l <= n; l++ {
				if r[l] != iv.indCycles[l] && (l <= bound || r[l] != 0) {
					return mk("NumberOfInducedCycles", "wrong-count", fmt.Sprintf("maxLength %d: %v, there are %d induced cycles of length %d", maxLen, r, iv.indCycles[l], l))
				}
			}
		}
		return nil
	})
	if !ok {
		return f
	}
	if eg, isE := g.(graph.EditableGraph); isE {
		if !run("NumberOfCycles", func() *Failure {
			before := mgFromGraph(eg)
			r := graph.NumberOfCycles(eg)
			if len(r) != n+1 {
				return mk("NumberOfCycles", "wrong-length", fmt.Sprint(r))
			}
			for l := 0; l <= n; l++ {
				if r[l] != iv.cycles[l] {
					return mk("NumberOfCycles", "wrong-count", fmt.Sprintf("got %v want %v", r, iv.cycles))
				}
			}
			if !mgFromGraph(eg).equal(before) {
				return mk("NumberOfCycles", "modifies-its-argument", "")
			}
			return nil
		}) {
			return f
		}
	}
	return nil
}

func observeC10(g graph.Graph) string {
	n := g.N()
	var dist []int
	for i := 0; i < n; i++ {
		for j := 0; j < n; j++ {
			dist = append(dist, graph.Distance(g, i, j))
		}
	}
	blocks, arts := graph.BiconnectedComponents(g)
	var comp1 [][]int
	for v := 0; v < n; v++ {
		comp1 = append(comp1, graph.ConnectedComponent(g, v))
	}
	return fmt.Sprint(dist, graph.Eccentricity(g), graph.Diameter(g), graph.Radius(g), graph.Girth(g), listsKey(graph.ConnectedComponents(g)), comp1, listsKey(blocks), sortedCopy(arts), graph.NumberOfInducedPaths(g, -1), graph.NumberOfInducedCycles(g, -1))
}

func runC10(c *Ctx) {
	c.Level = "exploration"
	c.Rule = "every labelled graph with n<=5 in four representations, n=6 dense+sparse (n=7 dense in thorough): Distance for every vertex pair, Eccentricity/Diameter/Radius against Floyd-Warshall, Girth, ConnectedComponent(v) for every v, ConnectedComponents, BiconnectedComponents (blocks = maximal connected vertex sets without a cut vertex, articulation vertices by deletion), NumberOfCycles by DFS enumeration, NumberOfInducedPaths/Cycles by subset tests for every maxLength in [-1,n+1]; larger structured graphs (paths, cycles, stars, trees, unions, cycle chains, grids with 33-140 vertices, dense and sparse, relabelled) against independent BFS / lowpoint reference algorithms; isomorphism-invariant counts computed once per class (orbit sweep) and required of every labelled member; non-trivial = graph with at least one edge"
	maxDense := 6
	if c.Thorough() {
		maxDense = 7
	}
	for n := 0; n <= maxDense; n++ {
		class, reps := orbitSweep(n)
		invs := make([]*invC10, len(reps))
		c.parFor(int64(len(reps)), 1, func(lo, hi int64) {
			for i := lo; i < hi; i++ {
				invs[i] = computeInvC10(mgFromMask(n, reps[i]))
			}
		})
		reprs := []string{"dense"}
		if n <= 6 {
			reprs = append(reprs, "sparse")
		}
		if n <= 5 {
			reprs = append(reprs, "cocomplement", "induced-view", "dense-bytes", "nested-view")
		}
		total := int64(len(class))
		c.parFor(total, 64, func(lo, hi int64) {
			for mm := lo; mm < hi; mm++ {
				if c.Expired() {
					return
				}
				for _, rep := range reprs {
					gc := giCase{N: n, Mask: uint64(mm), G6: g6(n, uint64(mm)), Rep: rep}
					iv := invs[class[mm]]
					c.CheckTimed(120*time.Second, func() *Failure { return evalC10(gc, iv) }, func() *Failure {
						return &Failure{Class: "invariants/does-not-terminate", What: fmt.Sprintf("%s %s: no answer within 120s", rep, gc.G6), Kind: "c10", Replay: gc}
					})
					if mm != 0 {
						c.Nontrivial(1)
					}
				}
			}
		})
		if c.Expired() {
			c.CapHit(fmt.Sprintf("deadline at n=%d", n))
			break
		}
		c.Count(fmt.Sprintf("labelled_graphs_n%d_x_reps%d", n, len(reprs)), total)
	}
	if !c.Thorough() {
		// quick: one representative of every isomorphism class on 7 vertices (1044) under identity, reversal, rotation
		// and three fixed pseudo-random relabellings, dense and sparse (thorough runs all 2^21 labelled graphs instead)
		_, reps7 := getSweepC10(7)
		perms := [][]int{nil}
		perms = append(perms, relabelBattery(7, false, 3)...)
		var n7 int64
		c.parFor(int64(len(reps7)), 4, func(lo, hi int64) {
			for _, r := range reps7[lo:hi] {
				iv := computeInvC10(mgFromMask(7, r))
				for pi, p := range perms {
					mask := r
					if p != nil {
						mask = permuteMask(7, r, p)
					}
					rep := "dense"
					if pi%2 == 1 {
						rep = "sparse"
					}
					gc := giCase{N: 7, Mask: mask, G6: g6(7, mask), Rep: rep}
					c.CheckTimed(120*time.Second, func() *Failure { return evalC10(gc, iv) }, func() *Failure {
						return &Failure{Class: "invariants/does-not-terminate", What: fmt.Sprintf("%s %s: no answer within 120s", rep, gc.G6), Kind: "c10", Replay: gc}
					})
					atomic.AddInt64(&n7, 1)
					c.Nontrivial(1)
				}
			}
		})
		c.SetCount("class_representatives_n7_x_relabellings", n7)
	}
	// disconnected graphs with 8..11 vertices: every pair and triple of small components (cycles, paths, stars, K4,
	// the diamond, K2,3), in every order of the components, dense and sparse; reference values by brute force
	{
		comps := []struct {
			name string
			n    int
			e    [][2]int
		}{
			{"C3", 3, [][2]int{{0, 1}, {1, 2}, {0, 2}}}, {"C4", 4, [][2]int{{0, 1}, {1, 2}, {2, 3}, {0, 3}}}, {"C5", 5, [][2]int{{0, 1}, {1, 2}, {2, 3}, {3, 4}, {0, 4}}},
			{"P2", 2, [][2]int{{0, 1}}}, {"P3", 3, [][2]int{{0, 1}, {1, 2}}}, {"P4", 4, [][2]int{{0, 1}, {1, 2}, {2, 3}}}, {"S3", 4, [][2]int{{0, 1}, {0, 2}, {0, 3}}},
			{"K4", 4, [][2]int{{0, 1}, {0, 2}, {0, 3}, {1, 2}, {1, 3}, {2, 3}}}, {"diamond", 4, [][2]int{{0, 1}, {0, 2}, {1, 2}, {1, 3}, {2, 3}}},
			{"K2,3", 5, [][2]int{{0, 2}, {0, 3}, {0, 4}, {1, 2}, {1, 3}, {1, 4}}}, {"K1", 1, nil},
		}
		var gcs []giCase
		build := func(idx []int) {
			n := 0
			for _, i := range idx {
				n += comps[i].n
			}
			if n < 8 || n > 11 {
				return
			}
			var mask uint64
			base := 0
			for _, i := range idx {
				for _, e := range comps[i].e {
					a, b := e[0]+base, e[1]+base
					if a > b {
						a, b = b, a
					}
					mask |= 1 << uint(b*(b-1)/2+a)
				}
				base += comps[i].n
			}
			for _, rep := range []string{"dense", "sparse"} {
				gcs = append(gcs, giCase{N: n, Mask: mask, G6: g6(n, mask), Rep: rep})
			}
		}
		for i := range comps {
			for j := range comps {
				build([]int{i, j})
				for k := range comps {
					if comps[i].n+comps[j].n+comps[k].n <= 11 {
						build([]int{i, j, k})
					}
				}
			}
		}
		c.parFor(int64(len(gcs)), 4, func(lo, hi int64) {
			for _, gc := range gcs[lo:hi] {
				gc := gc
				c.CheckTimed(120*time.Second, func() *Failure { return evalC10(gc, nil) }, func() *Failure {
					return &Failure{Class: "invariants/does-not-terminate", What: fmt.Sprintf("%s %s: no answer within 120s", gc.Rep, gc.G6), Kind: "c10", Replay: gc}
				})
				c.Nontrivial(1)
			}
		})
		c.SetCount("disconnected_unions_8_to_11_vertices", int64(len(gcs)))
	}
	c10Large(c)
	var vcs []viewCase
	for n := 3; n <= 5; n++ {
		vcs = append(vcs, viewHistoryCases(n, "c10-values")...)
	}
	c.parFor(int64(len(vcs)), 16, func(lo, hi int64) {
		for _, vc := range vcs[lo:hi] {
			vc := vc
			c.Check(func() *Failure { return evalViewHistory(vc, observeC10) })
		}
	})
	c.SetCount("view_histories", int64(len(vcs)))
	c.Sample("graph", giCase{N: 6, Mask: 0x1b47, G6: g6(6, 0x1b47), Rep: "induced-view"})
	c.Assume("graphs with n >= 8 are not covered")
}

func getSweepC10(n int) ([]int32, []uint64) {
	sw := getSweep(n)
	return sw.class, sw.reps
}

func replayC10(kind string, raw json.RawMessage) *Failure {
	if kind == "c10-large" {
		var lc largeCase
		json.Unmarshal(raw, &lc)
		return evalC10Large(lc)
	}
	if kind == "view-history" {
		var vc viewCase
		json.Unmarshal(raw, &vc)
		return evalViewHistory(vc, observeC10)
	}
	if kind != "c10" {
		return unsupportedKind(kind)
	}
	var gc giCase
	if err := json.Unmarshal(raw, &gc); err != nil {
		return &Failure{Class: "replay/bad-file", What: err.Error()}
	}
	return evalC10(gc, nil)
}

func init() { register("C10", runC10, replayC10) }
