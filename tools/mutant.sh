#!/bin/bash
# usage: tools/mutant.sh <patch.diff> <property>... : apply a seeded change to /repo, run the repository's own
# tests and the named checks (quick), then undo it. Never leaves /repo modified.
export GOFLAGS=-mod=mod GOPROXY=off GOSUMDB=off GOTOOLCHAIN=local
patch="$(readlink -f "$1")"; shift
cd /repo || exit 2
if [ -n "$(git status --porcelain)" ]; then echo "repo dirty"; exit 2; fi
git apply "$patch" || { echo "patch does not apply"; exit 2; }
trap 'git -C /repo checkout -- . ; git -C /repo clean -fdq' EXIT
if [ -z "$SKIP_TESTS" ]; then
  if go test -vet=off -count=1 ./... >/tmp/mutant-test.log 2>&1; then echo "REPO-TESTS: pass"; else echo "REPO-TESTS: FAIL"; tail -20 /tmp/mutant-test.log; fi
fi
for p in "$@"; do
  out=$(cd /verif && VERIF_NO_EVIDENCE=1 ./check "$p" ${TIER:-quick} 2>&1); rc=$?
  echo "CHECK $p rc=$rc"; echo "$out" | grep -E "VIOLATION|KNOWN-FINDING|HARNESS|BUILD|classifier" | head -8
done
