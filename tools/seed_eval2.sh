#!/bin/bash
id=$1; v=$2; shift; shift
out=/tmp/wt/out2-$id
echo "=== $id $v"
/verif/tools/seed_confirm.sh $out/patch$v.diff $out/demo${v}_test.go 2>&1 | grep CONFIRM | tr '\n' ';'; echo
SKIP_TESTS=1 /verif/tools/mutant.sh $out/patch$v.diff $id "$@" 2>&1 | grep -E "^CHECK|classifier=" | grep -v KNOWN | cut -c1-260
