#!/bin/bash
# usage: tools/seed_confirm.sh <patch.diff> <demo_test.go> : confirm a seeded change in a scratch worktree:
#   (1) patch applies to /repo HEAD, (2) library builds and its own tests pass with it, (3) demo fails with it,
#   (4) demo passes without it. The demo's first line says where to place it: "// place in: <dir>/".
export GOFLAGS=-mod=mod GOPROXY=off GOSUMDB=off GOTOOLCHAIN=local
patch="$(readlink -f "$1")"; demo="$(readlink -f "$2")"
W=/tmp/wt/confirm-$$
git -C /repo worktree add -q --detach "$W" HEAD || exit 2
trap 'git -C /repo worktree remove --force "$W" >/dev/null 2>&1' EXIT
dir=$(head -3 "$demo" | grep -o 'place in: *[A-Za-z0-9_/.-]*' | head -1 | sed 's/place in: *//')
[ -z "$dir" ] && { echo "CONFIRM: demo has no 'place in:' line"; exit 2; }
name=$(grep -o 'func Test[A-Za-z0-9_]*' "$demo" | head -1 | sed 's/func //')
cd "$W"
cp "$demo" "$W/$dir/zz_seed_demo_test.go"
if go test -vet=off -count=1 -run "^$name\$" "./$dir/" >/tmp/seed-clean.log 2>&1; then echo "CONFIRM demo-on-clean-tree: pass"; else echo "CONFIRM demo-on-clean-tree: FAIL (demo must pass without the patch)"; tail -5 /tmp/seed-clean.log; fi
rm "$W/$dir/zz_seed_demo_test.go"
git apply "$patch" || { echo "CONFIRM: patch does not apply"; exit 2; }
if go build ./... >/tmp/seed-build.log 2>&1 && go test -vet=off -count=1 ./... >/tmp/seed-suite.log 2>&1; then echo "CONFIRM suite-with-patch: pass"; else echo "CONFIRM suite-with-patch: FAIL"; tail -5 /tmp/seed-suite.log /tmp/seed-build.log; fi
cp "$demo" "$W/$dir/zz_seed_demo_test.go"
if timeout 300 go test -vet=off -count=1 -run "^$name\$" "./$dir/" >/tmp/seed-patched.log 2>&1; then echo "CONFIRM demo-with-patch: pass (demo must FAIL with the patch)"; else echo "CONFIRM demo-with-patch: fails as required"; fi
