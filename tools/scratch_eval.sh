#!/bin/bash
# usage: tools/scratch_eval.sh <Cxx> <patch.diff>... : evaluate changes to the library against the quick check of a
# property WITHOUT touching /repo: each patch is applied to a scratch worktree of /repo HEAD, a copy of the checker is
# built with `replace => <worktree>` and run with VERIF_NO_EVIDENCE=1. Prints the exit code and the verdict lines.
# (C19: the scratch copy of check19 below does the same with the instrumenter.) TIER=thorough for the thorough tier.
export GOFLAGS=-mod=mod GOPROXY=off GOSUMDB=off GOTOOLCHAIN=local
id=$1; shift
W=$(mktemp -d /tmp/scratch-eval-XXXXXX); rmdir "$W"
git -C /repo worktree add -q --detach "$W" HEAD || exit 2
S=$(mktemp -d /tmp/scratch-mc-XXXXXX)
trap 'git -C /repo worktree remove --force "$W" >/dev/null 2>&1; rm -rf "$S"' EXIT
for p in "$@"; do
  p=$(readlink -f "$p")
  git -C "$W" checkout -q -- . ; git -C "$W" clean -fdq
  git -C "$W" apply "$p" || { echo "$p APPLY-FAIL"; continue; }
  t0=$(date +%s)
  if [ "$id" = C19 ]; then
    rm -rf "$S"/*; mkdir -p "$S/h"
    (cd /verif/mc19/instr && go build -o "$S/instr" .) && "$S/instr" "$W" "$S/repo" github.com/Tom-Johnston/mamba "$S/sites.json" >/dev/null 2>"$S/build.log" || { echo "$p BUILD-FAIL"; head -5 "$S/build.log"; continue; }
    cp /verif/mc19/harness/*.go /verif/mc/core.go "$S/h/"
    printf 'module verifmc19\n\ngo 1.21\n\nrequire github.com/Tom-Johnston/mamba v0.0.0\n\nreplace github.com/Tom-Johnston/mamba => ../repo\n' > "$S/h/go.mod"
    (cd "$S/h" && go build -o "$S/mc19" . && go build -race -o "$S/mc19race" .) >"$S/build.log" 2>&1 || { echo "$p BUILD-FAIL"; head -5 "$S/build.log"; continue; }
    (cd /verif && VERIF_NO_EVIDENCE=1 MC19_SITES="$S/sites.json" MC19_RACE_BIN="$S/mc19race" timeout -k 10 3000 "$S/mc19" run -tier "${TIER:-quick}") > "$S/run.log" 2>&1; rc=$?
  else
    rm -rf "$S"/*; cp /verif/mc/*.go "$S/"
    printf 'module verifmc\n\ngo 1.21\n\nrequire github.com/Tom-Johnston/mamba v0.0.0\n\nreplace github.com/Tom-Johnston/mamba => %s\n' "$W" > "$S/go.mod"
    (cd "$S" && go build -o "$S/mc" .) >"$S/build.log" 2>&1 || { echo "$p BUILD-FAIL"; head -5 "$S/build.log"; continue; }
    (cd /verif && VERIF_NO_EVIDENCE=1 timeout 3000 "$S/mc" "$id" -tier "${TIER:-quick}") > "$S/run.log" 2>&1; rc=$?
  fi
  echo "$p rc=$rc $(( $(date +%s)-t0 ))s"
  grep -aE "^VIOLATION|^KNOWN-FINDING|^HARNESS|^NOTE|classifier=" "$S/run.log" | head -6 | cut -c1-300
done
