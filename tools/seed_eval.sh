#!/bin/bash
# usage: tools/seed_eval.sh <Cxx> <A|B> [other checks...] : confirm the sub-agent's change and run our check(s) on it
id=$1; v=$2; shift; shift
out=/tmp/wt/out-$id
echo "=== $id $v"
/verif/tools/seed_confirm.sh $out/patch$v.diff $out/demo${v}_test.go 2>&1 | grep CONFIRM
SKIP_TESTS=1 /verif/tools/mutant.sh $out/patch$v.diff $id "$@" 2>&1 | cut -c1-330
