#!/bin/bash
# usage: tools/preserve_confirm.sh <patch.diff> <demo_test.go> : confirm a property-PRESERVING change (a refactoring that
# alters only unspecified behaviour) in a scratch worktree of /repo HEAD: (1) its demo - an oracle test of the property's
# clauses - passes on the clean tree, (2) the patch applies, (3) the library builds and its own tests pass with it,
# (4) the demo still passes with it. The demo's first line says where to place it: "// place in: <dir>/".
export GOFLAGS=-mod=mod GOPROXY=off GOSUMDB=off GOTOOLCHAIN=local
patch="$(readlink -f "$1")"; demo="$(readlink -f "$2")"
W=/tmp/wt/pconfirm-$$
git -C /repo worktree add -q --detach "$W" HEAD || exit 2
trap 'git -C /repo worktree remove --force "$W" >/dev/null 2>&1' EXIT
dir=$(head -3 "$demo" | grep -o 'place in: *[A-Za-z0-9_/.-]*' | head -1 | sed 's/place in: *//')
[ -z "$dir" ] && { echo "PCONFIRM: demo has no 'place in:' line"; exit 2; }
cd "$W"
cp "$demo" "$W/$dir/zz_preserve_demo_test.go"
if timeout 900 go test -vet=off -count=1 "./$dir/" >/tmp/pres-clean-$$.log 2>&1; then echo "PCONFIRM demo-on-clean-tree: pass"; else echo "PCONFIRM demo-on-clean-tree: FAIL"; tail -5 /tmp/pres-clean-$$.log; fi
rm "$W/$dir/zz_preserve_demo_test.go"
git apply "$patch" || { echo "PCONFIRM: patch does not apply"; exit 2; }
if go build ./... >/tmp/pres-build-$$.log 2>&1 && go test -vet=off -count=1 ./... >/tmp/pres-suite-$$.log 2>&1; then echo "PCONFIRM suite-with-patch: pass"; else echo "PCONFIRM suite-with-patch: FAIL"; tail -5 /tmp/pres-suite-$$.log /tmp/pres-build-$$.log; fi
cp "$demo" "$W/$dir/zz_preserve_demo_test.go"
if timeout 900 go test -vet=off -count=1 "./$dir/" >/tmp/pres-patched-$$.log 2>&1; then echo "PCONFIRM demo-with-patch: pass"; else echo "PCONFIRM demo-with-patch: FAIL (the change breaks its own oracle test)"; tail -5 /tmp/pres-patched-$$.log; fi
rm -f /tmp/pres-*-$$.log
