#!/usr/bin/env python3
# Generates /verif/MANIFEST.json from the table below (single source of truth for the interface).
import json
ALL = ["C%02d" % i for i in range(1, 21)]
CHECKS = {
 "C18": dict(level="model_checking", technique="explicit-state BFS over the real union-find array to closure, label-partition reference model",
   text="Every reachable concrete []int state of disjoint.Set for n<=6 (quick) / n<=8 (thorough) under all Union/UnionBuffered/Find/FindBuffered calls is visited on the real code; all observers are compared with a partition model after every transition, and two histories reaching the same array must have generated the same partition.",
   note="Trusted: the label-partition model (20 lines) and Go's runtime. Bounds: n <= 6/8; arguments in range, buffers of capacity >= 1.", ref="§3 C18"),
}
NA_REASON = "check not built yet in this session (planned in DESIGN.md; technique applies)"
m = {
 "version": 1,
 "setup_cmd": "cd /verif && ./setup.sh",
 "hooks": {"guard": "verif", "enable": "no source hooks: checks build /repo as it is (C19 injects scheduling points at check time through go build -overlay)", "baseline_off_cmd": "cd /repo && go test -vet=off -count=1 ./...", "source_commits": [], "add_only": True},
 "engines": [{"name": "mc", "path": "/verif/mc", "serves_properties": sorted(CHECKS), "kind_free_text": "hand-written Go explicit-state / bounded-exhaustive explorer running the real library code; built by /verif/check from the current /repo tree"}],
 "checks": [],
 "not_applicable": [],
 "notes": "All checks: ./check <id> quick|thorough. Exit 0 = held on everything explored, 1 = VIOLATION line, 2 = harness/build error.",
}
for pid in ALL:
    if pid in CHECKS:
        c = CHECKS[pid]
        m["checks"].append({
          "property_id": pid, "quick_cmd": "./check %s quick" % pid, "thorough_cmd": "./check %s thorough" % pid,
          "evidence_file": "/verif/evidence/%s.json" % pid, "replay_cmd_template": "./check %s quick -replay {path}" % pid,
          "engine": "mc", "level_claimed": {"category": c["level"], "text": c["text"], "design_ref": c["ref"]},
          "level_note": c["note"], "technique": c["technique"]})
    else:
        m["not_applicable"].append({"property_id": pid, "reason": NA_REASON})
json.dump(m, open("/verif/MANIFEST.json", "w"), indent=1)
print("checks:", len(m["checks"]), "not_applicable:", len(m["not_applicable"]))
