#!/usr/bin/env python3
# Generates /verif/MANIFEST.json from the table below (single source of truth for the interface).
import json
ALL = ["C%02d" % i for i in range(1, 21)]
CHECKS = {
 "C07": dict(level="exploration", technique="bounded-exhaustive enumeration of labelled graphs, Pruefer codes, labelled trees and Multicode streams against reference codecs written from formats.txt",
   text="Every labelled graph with n<=6 (7 thorough), dense and sparse, through graph6 and Multicode (byte-for-byte against the reference encoders, decode of the reference string equals g) and sparse6 (the library's string must decode to g under the format's own decoder, which keeps loops so the special padding rule is enforced, and the library must decode the reference string and its own), with and without the header; structured graphs at n in {8,16,17,32,33,62,63,64,100} (4-byte size field, padding special cases, every stream alignment) and sparse6 at n=258047/258048; all n^(n-2) Pruefer codes for n<=7 (8) and all labelled trees for n<=6 (7) in both directions; every concatenation of <=3 Multicode records over the 12 graphs with n<=3.",
   note="Trusted: the reference codecs (refcodec.go, 300 lines, from formats.txt and nauty's ntos6/stringtograph as recalled). Not covered: graph6 at the 8-byte size field (5 GB).", ref="§3 C07"),
 "C08": dict(level="exploration", technique="bounded-exhaustive enumeration of byte strings over a reduced alphabet plus single-edit closure of valid encodings, crash- and hang-isolated",
   text="About 1.4*10^5 (quick) / 7.7*10^5+ (thorough) strings per run: every string over {62,63,64,66,73,94,126,127} (+':' ';') up to length 6-7 (7-8), the header and all its proper prefixes in front of short strings, and every single-byte delete/duplicate/replace/truncate of valid encodings (all graphs n<=4, structured n up to 64). Each is decoded in worker subprocesses (address-space limit, deadline): no panic, no hang, error or a well-formed graph on the declared n whose re-encoding decodes to itself; strings without a valid size field must be rejected.",
   note="Trusted: the reference size-field parser; worker isolation. Declared n > 4096 skipped as the property states.", ref="§3 C08"),
 "C12": dict(level="exploration", technique="bounded-exhaustive enumeration of word sets and Add histories with Myhill-Nerode (right-language) minimality oracle",
   text="Every subset of the 15 binary words of length <=3, of the 13 words of length <=2 over {0x00,'m',0xff} and every subset of size <=5 (6 thorough) of the 31 binary words of length <=4 is built; Lookup is compared on every probe string up to one letter longer over the alphabet plus a foreign letter (membership and lexicographic rank), NumberOfWords, the accepted language read from the node graph, and node count = number of distinct right languages. Every Add sequence of length <=6 (7) over the 7 words of length <=2 plus nil: error exactly for words not above the last accepted one, finished automaton = automaton of the accepted words.",
   note="Trusted: reflection walk of the node graph by type shape, right-language oracle. Callers do not modify slices passed to Add.", ref="§3 C12"),
 "C13": dict(level="exploration", technique="bounded-exhaustive enumeration of word sets x queries against the definition of matching, each search repeated with the same searcher objects",
   text="All 32768 binary word sets (length <=3) x every pattern and every anagram letter sequence of length <=2 (all of length <=4 on an eighth of the sets in quick, on all sets in thorough) with blank '?' and with a letter as blank, plus all pattern+anagram pairs on the 128 sets of words of length <=2: result words, order and ranks equal the sorted word list filtered by the definition, a second Search with the same searchers gives the same result, the automaton snapshot is unchanged.",
   note="Trusted: the matching definitions (20 lines). Only the library's two searcher types.", ref="§3 C13"),
 "C14": dict(level="exploration", technique="bounded-exhaustive enumeration plus boundary families (every branching 0..256, node/word counts across varint boundaries), crash-isolated round-trip comparison",
   text="Word sets as in C12 (a quarter in quick) plus families reaching every encoding boundary are encoded with GobEncode and through encoding/gob, decoded into fresh and non-empty receivers in worker subprocesses (a corrupt count can otherwise kill the process), and compared on language, ranks, NumberOfWords, node count, a battery of pattern/anagram searches and byte-identical re-encoding.",
   note="Trusted: reflection snapshot; worker isolation (address-space limit 12 GB, 180 s per case).", ref="§3 C14"),
 "C20": dict(level="fault_enumeration", technique="exhaustive fault-position enumeration through the io.Writer seam plus exhaustive weight functions over a value set",
   text="Fault-free: every weight function over a 7-value set (with MinInt64/MaxInt64) for n<=3, over 4 values for n=4 (7 in thorough) and 2 for n=5 is written and parsed back line by line (header, DIMENSION, row shapes, every weight, EOF, weights only called with 0<=j<i<n). Faults: for every (n<=4, weight function over 3 values) the W underlying Write calls are counted and every position p<W x {permanent, transient} x {zero, short count} is injected; LIB must return non-nil.",
   note="Trusted: the fault-injecting writer (30 lines). The writer obeys the io.Writer contract.", ref="§3 C20"),
 "C15": dict(level="exploration", technique="bounded-exhaustive enumeration of iterator parameters and of all predicates in small scope, each iterator driven as a state machine against a naive reference enumeration",
   text="Every parameter tuple in a box containing each special-cased boundary (n=0,1; k=0,n,n+1,n+2; zero/repeated multiplicities; empty and zero factors) is driven to exhaustion plus three further Next calls and compared, as a sequence where an order is documented and as a repeat-free set otherwise, with a naive recursive enumeration; RestrictedPrefixProduct over every predicate on prefix trees with <=14 nodes (17 thorough), RestrictedPrefixPermutations n<=3 over all 2^15 predicates, PermutationsByPattern n<=3 over all 2^9, TopologicalSorts n<=6 over every relation, plus pattern-avoidance / position / parity predicate families for n<=6. Each case runs under a 15 s non-termination guard.",
   note="Trusted: the naive enumerators. Predicates are pure. Larger n are not covered.", ref="§3 C15"),
 "C16": dict(level="exploration", technique="bounded-exhaustive enumeration of (n,k) across every overflow threshold and of ranks/subsets, math/big oracle",
   text="CoeffUint64/Coeff are compared with exact big-integer binomials on every row n<=70, for every k in 3..40 on every n from 0 to the independently computed threshold T_k+64 in both argument forms (k=3 interior thinned in quick, complete in thorough), for k=2 around every power of two (all n<=2^32+64 in thorough) and on windows for k<=1 and the far region: exact or panic, and exact whenever C(n,k)*min(k,n-k) fits. Rank is checked on every subset of [0,16) ([0,20) thorough) against its CombinationsColex position, Unrank on every rank below 3*10^5 (2*10^6) for k<=6 and on boundary ranks; ranks whose walk overflows are probed under a deadline (known finding).",
   note="Trusted: math/big. Unrank inputs whose correct linear walk exceeds 2e7 steps are not evaluated. Known finding: Unrank overflow/non-termination for large ranks.", ref="§3 C16"),
 "C17": dict(level="exploration", technique="bounded-exhaustive enumeration over a 6-element universe plus explicit-state BFS of mutation histories; map-based set oracle",
   text="All ordered pairs of the 64 subsets of U for every binary function, every x for Remove/ContainsSingle, all 1555 argument lists of length <=4 for Add/NewSortedInts on receivers with 0/1/k spare capacity, Complement n<=7, Range on [-5,5]^2x[-3,3] with the documented panic set, argument immutability over full capacity, BFS over mutation histories keyed by exact slice content (closure in thorough); ints.Sort against sort.Ints on all ternary sequences of length <=9, all permutations of length <=8 and adversarial families including McIlroy-adversary inputs that drive the real code into its heap-sort fallback with chosen content.",
   note="Trusted: map-based set model, sort.Ints. Arguments satisfy the SortedInts representation invariant.", ref="§3 C17"),
 "C01": dict(level="exploration", technique="bounded-exhaustive enumeration of all labelled graphs (closed under relabelling) with generator-invariance oracle",
   text="CanonicalIsomorph is run on every labelled graph with n<=7 (all 2.1M; n=8, all 2^28, in thorough), in four representations for n<=6, on every labelled regular graph on 8 and 9 vertices (cubic on 10 in thorough) and on 27 named hard graphs (n<=16) under every relabelling within 2 transpositions; because each enumerated set is closed under relabelling, c(g)=c(sigma g)=c(tau g) for all members is invariance under all n! relabellings, and the number of distinct canonical forms must equal the number of orbits found by an independent orbit sweep.",
   note="Trusted: the mask relabelling helpers, the orbit sweep (closure under two generators), Go runtime. Not covered: graphs with n>=9 outside the listed families.", ref="§3 C01"),
 "C02": dict(level="exploration", technique="bounded-exhaustive enumeration of graphs, reuse sequences and (graph, class partition) pairs with brute-force / orbit-stabiliser automorphism oracle",
   text="For every labelled graph with n<=6 (7 in thorough) the generators must be automorphisms generating a group of order |Aut(g)| (brute force, or n!/|class| from the orbit sweep) whose orbits are the returned partition; every sequence (length<=3) of graphs, with and without CheckViability and vertex classes, through one reused storage/partition pair must equal fresh calls; every (graph, ordered class partition) pair with n<=5 (6) is checked against brute-force class-preserving automorphisms and for invariance under the generators of S_n.",
   note="Trusted: brute-force automorphism enumeration, group closure BFS. Bounds as stated; class lists in ascending or descending order.", ref="§3 C02"),
 "C05": dict(level="model_checking", technique="explicit-state BFS over exact concrete graph states (fields, capacities, stale storage) with adjacency-set reference model; traces replayed without cloning",
   text="All edit histories over AddVertex/RemoveVertex/AddEdge/RemoveEdge/Copy/InducedSubgraph are explored on the real DenseGraph (closure of the reachable concrete state space with <=5 vertices) and SparseGraph (closure with <=3 vertices, depth 6 with <=4; closure with <=4 in thorough); after every transition all observers are compared with the model, Copy/InducedSubgraph results are tested for storage independence by scribbling, and every state's shortest trace is replayed on one uncloned object and must reach the same concrete state.",
   note="Trusted: the adjacency bit-row model and the exact-state clone (validated by the uncloned replays). Valid arguments only.", ref="§3 C05"),
 "C18": dict(level="model_checking", technique="explicit-state BFS over the real union-find array to closure, label-partition reference model",
   text="Every reachable concrete []int state of disjoint.Set for n<=6 (quick) / n<=8 (thorough) under all Union/UnionBuffered/Find/FindBuffered calls is visited on the real code; all observers are compared with a partition model after every transition, and two histories reaching the same array must have generated the same partition.",
   note="Trusted: the label-partition model (20 lines) and Go's runtime. Bounds: n <= 6/8; arguments in range, buffers of capacity >= 1.", ref="§3 C18"),
}
NA_REASON = "check not built yet in this session (planned in DESIGN.md; technique applies)"
m = {
 "version": 1,
 "setup_cmd": "cd /verif && ./setup.sh",
 "hooks": {"guard": "verif", "enable": "no source hooks: checks build /repo as it is (C19 injects scheduling points at check time through go build -overlay)", "baseline_off_cmd": "cd /repo && go test -vet=off -count=1 ./...", "source_commits": [], "add_only": True},
 "engines": [{"name": "mc", "path": "/verif/mc", "serves_properties": sorted(CHECKS), "kind_free_text": "hand-written Go explicit-state / bounded-exhaustive explorer running the real library code; built by /verif/check from the current /repo tree"}],
 "checks": [],
 "not_applicable": [],
 "notes": "All checks: ./check <id> quick|thorough. Exit 0 = held on everything explored, 1 = VIOLATION line, 2 = harness/build error.",
}
for pid in ALL:
    if pid in CHECKS:
        c = CHECKS[pid]
        m["checks"].append({
          "property_id": pid, "quick_cmd": "./check %s quick" % pid, "thorough_cmd": "./check %s thorough" % pid,
          "evidence_file": "/verif/evidence/%s.json" % pid, "replay_cmd_template": "./check %s quick -replay {path}" % pid,
          "engine": "mc", "level_claimed": {"category": c["level"], "text": c["text"], "design_ref": c["ref"]},
          "level_note": c["note"], "technique": c["technique"]})
    else:
        m["not_applicable"].append({"property_id": pid, "reason": NA_REASON})
json.dump(m, open("/verif/MANIFEST.json", "w"), indent=1)
print("checks:", len(m["checks"]), "not_applicable:", len(m["not_applicable"]))
