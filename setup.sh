#!/bin/bash
# Offline setup: pre-build the explorer so the first check does not pay the cold-cache build.
export GOFLAGS=-mod=mod GOPROXY=off GOSUMDB=off GOTOOLCHAIN=local
cd /verif/mc && mkdir -p /verif/bin && go build -o /verif/bin/mc . && /verif/check19 build-only && echo setup ok
