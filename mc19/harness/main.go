package main

// mc19: schedule exploration for C19 (independent values do not interfere across goroutines).
//   mc19 run -tier quick|thorough      orchestrator: one child process per scenario, then the race pass
//   mc19 scenario <name> <tier>        profile + preemption-bounded exploration of one scenario (JSON on stdout)
//   mc19 race <name> <reps>            free-running goroutines (binary built with -race)
//   mc19 replay <file>                 re-execute one recorded schedule twice

import (
	"encoding/json"
	"flag"
	"fmt"
	"os"
	"os/exec"
	"sort"
	"strings"
	"sync"
	"time"

	"github.com/Tom-Johnston/mamba/verifrt"
)

type siteInfo struct {
	ID     int    `json:"id"`
	File   string `json:"file"`
	Line   int    `json:"line"`
	Func   string `json:"func"`
	Global bool   `json:"mentions_package_level_var,omitempty"`
}

var sites []siteInfo

func loadSites() {
	if p := os.Getenv("MC19_SITES"); p != "" {
		if b, err := os.ReadFile(p); err == nil {
			json.Unmarshal(b, &sites)
		}
	}
}

func siteStr(id int32) string {
	if id >= 0 && int(id) < len(sites) {
		s := sites[id]
		return fmt.Sprintf("%s:%d (%s)", s.File, s.Line, s.Func)
	}
	if id < 0 && id > -1000000 {
		return fmt.Sprintf("before operation %d", -1-id)
	}
	return "thread start/end"
}

type dirtyPoint struct {
	Thread int      `json:"thread"`
	Point  int64    `json:"point"`
	Site   string   `json:"site"`
	Paths  []string `json:"changed"`
}

type violation struct {
	Class    string   `json:"classifier"`
	What     string   `json:"what"`
	Scenario string   `json:"scenario"`
	Schedule []int    `json:"schedule,omitempty"`
	AllPts   bool     `json:"every_point_is_a_decision,omitempty"`
	Detail   []string `json:"detail,omitempty"`
}

type scenarioResult struct {
	Name            string       `json:"name"`
	Threads         int          `json:"threads"`
	SoloPoints      []int64      `json:"solo_points"`
	SoloOps         []int        `json:"solo_observations"`
	Dirty           []dirtyPoint `json:"dirty_points"`
	Mode            string       `json:"mode"`
	Executions      int64        `json:"executions"`
	Decisions       int64        `json:"decisions"`
	Outcomes        int          `json:"distinct_outcomes"`
	PathDiffers     int64        `json:"schedules_where_a_goroutine_took_another_path_than_alone"`
	BoundCompleted  int          `json:"preemption_bound_completed"`
	AllPointsBound  int          `json:"preemption_bound_completed_every_point"`
	Capped          bool         `json:"capped"`
	Deterministic   bool         `json:"replay_deterministic"`
	Violations      []violation  `json:"violations"`
	Sample          []string     `json:"sample_schedule"`
	GlobalsInRegion int          `json:"package_level_vars"`
	WallS           float64      `json:"wall_s"`
}

type profile struct {
	obs     []string
	points  int64
	seqHash uint64
	dirty   []dirtyPoint
	changed map[string]bool
}

// soloProfile runs thread t of a fresh instance alone, hashing the shared region after every point.
func soloProfile(sc scenario, t int, hashEveryPoint bool) *profile {
	in := sc.build()
	region := newRegion(in.shared)
	p := &profile{changed: map[string]bool{}}
	last := region.hash()
	var lastLeaves map[string]uint64
	if hashEveryPoint {
		lastLeaves = region.leaves()
	}
	check := func(site int32) {
		h := region.hash()
		if h != last {
			last = h
			nl := region.leaves()
			d := diffLeaves(lastLeaves, nl)
			lastLeaves = nl
			for _, k := range d {
				p.changed[k] = true
			}
			if len(d) > 6 {
				d = d[:6]
			}
			p.dirty = append(p.dirty, dirtyPoint{Thread: t, Point: p.points, Site: siteStr(site), Paths: d})
		}
	}
	verifrt.Hook = func(site int32) {
		p.points++
		p.seqHash = mix(p.seqHash, uint64(site))
		if hashEveryPoint {
			check(site) // the statement before this point may have written S
		}
	}
	func() {
		defer func() {
			if r := recover(); r != nil {
				p.obs = append(p.obs, fmt.Sprintf("PANIC: %v", r))
			}
		}()
		p.obs = in.threads[t](func(int) {})
	}()
	verifrt.Hook = nil
	if hashEveryPoint {
		check(-1000000)
	}
	return p
}

func runScenario(name, tier string) *scenarioResult {
	start := time.Now()
	var sc *scenario
	for _, s := range allScenarios() {
		if s.name == name {
			s := s
			sc = &s
		}
	}
	if sc == nil {
		fmt.Fprintln(os.Stderr, "unknown scenario", name)
		os.Exit(2)
	}
	res := &scenarioResult{Name: name, Deterministic: true}
	n := len(sc.build().threads)
	res.Threads = n
	for _, f := range verifrt.Globals {
		res.GlobalsInRegion += len(f())
	}
	profs := make([]*profile, n)
	seqStable := true
	for t := 0; t < n; t++ {
		profs[t] = soloProfile(*sc, t, true)
		again := soloProfile(*sc, t, false)
		if again.seqHash != profs[t].seqHash || fmt.Sprint(again.obs) != fmt.Sprint(profs[t].obs) {
			seqStable = false
			if fmt.Sprint(again.obs) != fmt.Sprint(profs[t].obs) {
				if len(profs[t].dirty) > 0 {
					// the first run wrote package-level (or shared) memory and the second, on fresh values, behaves differently
					res.Violations = append(res.Violations, violation{Class: "interference/fresh-values-affected-by-earlier-calls", What: fmt.Sprintf("thread %d run twice on fresh values gives different observations; the first run wrote %s at %s", t, firstKey(profs[t].changed), profs[t].dirty[0].Site), Scenario: name})
				} else {
					res.Violations = append(res.Violations, violation{Class: "harness/solo-run-nondeterministic", What: fmt.Sprintf("thread %d gives different observations in two solo runs", t), Scenario: name})
				}
			}
		}
		res.SoloPoints = append(res.SoloPoints, profs[t].points)
		res.SoloOps = append(res.SoloOps, len(profs[t].obs))
		res.Dirty = append(res.Dirty, profs[t].dirty...)
		for _, o := range profs[t].obs {
			if strings.HasPrefix(o, "PANIC") {
				res.Violations = append(res.Violations, violation{Class: "harness/solo-run-panics", What: fmt.Sprintf("thread %d alone: %s", t, o), Scenario: name})
			}
		}
	}
	// rules on the solo footprints (not for state owned by packages that use sync: it may be properly synchronised)
	usesSync := len(verifrt.SyncPkgs) > 0
	syncOwned := func(key string) bool {
		for p := range verifrt.SyncPkgs {
			if strings.HasPrefix(key, p+".") || strings.HasPrefix(key, "(*"+p+".") {
				return true
			}
		}
		return usesSync && strings.Contains(key, "shared:")
	}
	for t := 0; t < n; t++ {
		for k := range profs[t].changed {
			if strings.HasPrefix(k, "shared:") || strings.Contains(k, "(*shared:") || strings.Contains(k, "shared:") {
				if syncOwned(k) {
					continue
				}
				res.Violations = append(res.Violations, violation{Class: "interference/read-only-query-writes-shared-value", What: fmt.Sprintf("thread %d, running alone, changed %s of a value the threads share read-only (first at %s)", t, k, firstDirtySite(profs[t], k)), Scenario: name})
				break
			}
		}
		for k := range profs[t].changed {
			// a package-level variable written during a call, without synchronisation: every call in these scenarios
			// may be made by two goroutines at once (on distinct values, or as read-only queries on a shared one), so
			// the write races with itself whatever it stores. (The pinned tree writes no package-level state at all.)
			if !strings.Contains(k, "shared:") && !syncOwned(k) {
				res.Violations = append(res.Violations, violation{Class: "interference/call-writes-unsynchronised-package-level-state", What: fmt.Sprintf("thread %d, running alone, wrote the package-level location %s (first at %s); two goroutines making this call race on it", t, k, firstDirtySite(profs[t], k)), Scenario: name})
				break
			}
		}
		for u := 0; u < t; u++ {
			for k := range profs[t].changed {
				if profs[u].changed[k] && !syncOwned(k) {
					res.Violations = append(res.Violations, violation{Class: "interference/two-goroutines-write-the-same-location", What: fmt.Sprintf("threads %d and %d both write %s (unsynchronised writes to one location: a data race whatever the values); writers: %s / %s", u, t, k, firstDirtySite(profs[u], k), firstDirtySite(profs[t], k)), Scenario: name})
					break
				}
			}
		}
	}
	if len(res.Violations) > 0 {
		// the solo footprints already show a violation (they are violations by themselves): exploring schedules of a
		// scenario whose shared region is being written would add nothing and can take very long (every execution
		// re-hashes the region after every point)
		res.Mode = "solo-footprints (violation found; schedule exploration skipped)"
		res.WallS = time.Since(start).Seconds()
		return res
	}
	anyDirty := len(res.Dirty) > 0
	var totalPoints int64
	for _, p := range profs {
		totalPoints += p.points
	}
	budget := totalPoints*20 + 100000
	bodies := func() []func(func(int)) []string {
		in := sc.build()
		out := make([]func(func(int)) []string, len(in.threads))
		for i, b := range in.threads {
			out[i] = b
		}
		return out
	}
	outcomes := map[string]bool{}
	allPts := false
	check := func(choices []int, x *execResult) bool {
		res.Decisions += int64(len(x.points))
		outcomes[fmt.Sprint(x.obs)] = true
		if x.diverged != "" {
			res.Violations = append(res.Violations, violation{Class: "harness/replay-diverged", What: x.diverged, Scenario: name, Schedule: choices})
			return false
		}
		for t := 0; t < n; t++ {
			if fmt.Sprint(x.obs[t]) != fmt.Sprint(profs[t].obs) {
				res.Violations = append(res.Violations, violation{Class: "interference/result-differs-from-solo-run", What: fmt.Sprintf("thread %d obtained %.300v under this schedule but %.300v running alone", t, x.obs[t], profs[t].obs), Scenario: name, Schedule: choices, AllPts: allPts, Detail: describeSchedule(x)})
				return false
			}
			if seqStable && (x.seqHash[t] != profs[t].seqHash || x.pcount[t] != profs[t].points) {
				// a goroutine took another path than it takes alone. The property speaks of results and data
				// races only, and a properly synchronised cache (sync.Once, atomic.Value, sync.Pool) legitimately
				// makes the path depend on who came first: counted, not reported
				res.PathDiffers++
			}
		}
		return true
	}
	maxBound, maxExec := 3, int64(60000)
	allPtsLimit1, allPtsLimit2 := int64(8000), int64(150)
	if tier == "thorough" {
		maxBound, maxExec = 4, 600000
		allPtsLimit1, allPtsLimit2 = 45000, 500
	}
	res.Mode = "api-boundaries"
	res.BoundCompleted = -1
	stopped := false
	for bound := 0; bound <= maxBound; bound++ {
		e := &explorer{bodies: bodies, candidate: nil, budget: budget, bound: bound, maxExec: maxExec, check: check}
		e.explore(nil)
		res.Executions += e.executions
		if e.stop {
			stopped = true
			break
		}
		if e.capped {
			res.Capped = true
			break
		}
		res.BoundCompleted = bound
	}
	// every injected point of every thread as a preemption candidate: always when some statement writes the
	// shared region, otherwise whenever the scenario is small enough (non-vacuity at statement granularity)
	res.AllPointsBound = -1
	if usesSync {
		res.Mode = "api-boundaries only (the library uses sync: preemption inside a call could block on a lock)"
	}
	if !stopped && !usesSync && (anyDirty || totalPoints <= allPtsLimit1) {
		res.Mode = "api-boundaries + every statement-level point"
		allPts = true
		for bound := 1; bound <= 2; bound++ {
			if bound == 2 && totalPoints > allPtsLimit2 {
				break
			}
			e := &explorer{bodies: bodies, candidate: func(t int, pidx int64, site int32) bool { return true }, budget: budget, bound: bound, maxExec: maxExec * 3, check: check}
			e.explore(nil)
			res.Executions += e.executions
			if e.stop {
				break
			}
			if e.capped {
				res.Capped = true
				break
			}
			res.AllPointsBound = bound
		}
	}
	// determinism of replay: the all-default schedule twice
	a := runScheduled(bodies(), nil, nil, budget)
	b := runScheduled(bodies(), nil, nil, budget)
	if fmt.Sprint(a.obs) != fmt.Sprint(b.obs) || fmt.Sprint(a.seqHash) != fmt.Sprint(b.seqHash) {
		res.Deterministic = false
		res.Violations = append(res.Violations, violation{Class: "harness/replay-nondeterministic", What: "the same schedule gives different observations twice", Scenario: name})
	}
	res.Sample = describeSchedule(a)
	res.Outcomes = len(outcomes)
	res.WallS = time.Since(start).Seconds()
	return res
}

func firstKey(m map[string]bool) string {
	ks := make([]string, 0, len(m))
	for k := range m {
		ks = append(ks, k)
	}
	sort.Strings(ks)
	if len(ks) == 0 {
		return "?"
	}
	return ks[0]
}

func hasClass(vs []violation, cl string) bool {
	for _, v := range vs {
		if v.Class == cl {
			return true
		}
	}
	return false
}

func firstDirtySite(p *profile, key string) string {
	for _, d := range p.dirty {
		for _, k := range d.Paths {
			if k == key {
				return d.Site
			}
		}
	}
	if len(p.dirty) > 0 {
		return p.dirty[0].Site
	}
	return "?"
}

func describeSchedule(x *execResult) []string {
	var out []string
	for i, p := range x.points {
		if i >= 40 {
			out = append(out, "...")
			break
		}
		out = append(out, fmt.Sprintf("at %s (running T%d, enabled %v) -> T%d", siteStr(p.site), p.thread, p.enabled, p.enabled[p.choice]))
	}
	return out
}

// ---- race pass body ----

func runRace(name string, reps int) int {
	var sc *scenario
	for _, s := range allScenarios() {
		if s.name == name {
			s := s
			sc = &s
		}
	}
	if sc == nil {
		return 2
	}
	bad := 0
	for r := 0; r < reps; r++ {
		// expected observations: each thread alone on a fresh instance
		in0 := sc.build()
		want := make([][]string, len(in0.threads))
		for t := range in0.threads {
			in := sc.build()
			want[t] = in.threads[t](func(int) {})
		}
		in := sc.build()
		got := make([][]string, len(in.threads))
		var wg sync.WaitGroup
		startGate := make(chan struct{})
		for t := range in.threads {
			t := t
			wg.Add(1)
			go func() {
				defer wg.Done()
				defer func() {
					if r := recover(); r != nil {
						got[t] = []string{fmt.Sprintf("PANIC: %v", r)}
					}
				}()
				<-startGate
				got[t] = in.threads[t](func(int) {})
			}()
		}
		close(startGate)
		wg.Wait()
		for t := range got {
			if fmt.Sprint(got[t]) != fmt.Sprint(want[t]) {
				fmt.Printf("RACE-PASS-MISMATCH scenario=%s thread=%d got=%.200v want=%.200v\n", name, t, got[t], want[t])
				bad++
			}
		}
	}
	if bad > 0 {
		return 3
	}
	return 0
}

// ---- orchestrator ----

func orchestrate(tier string) int {
	c := newCtx("C19", tier)
	c.Level = "model_checking"
	c.Rule = "per scenario (2-3 logical threads on separate values or a shared read-only value): solo profiles with a deep hash of the shared region (all package-level variables + shared values) after every injected statement-level point; then every schedule of the API-call boundaries with at most 3 (4 thorough) preemptions under a controlled scheduler, each execution compared with the solo observations and solo control flow; then every statement-level point of every thread as a preemption candidate with 1 preemption (2 for scenarios under 150/500 points) whenever the scenario has at most 8000 (45000 thorough) points or any statement writes the shared region; plus a separate free-running pass of the same bodies under the race detector; non-trivial = execution with at least one preemption"
	exe, _ := os.Executable()
	scs := allScenarios()
	results := make([]*scenarioResult, len(scs))
	var wg sync.WaitGroup
	sem := make(chan struct{}, c.Workers)
	for i, sc := range scs {
		i, sc := i, sc
		wg.Add(1)
		go func() {
			defer wg.Done()
			sem <- struct{}{}
			defer func() { <-sem }()
			cmd := exec.Command(exe, "scenario", sc.name, tier)
			cmd.Env = append(os.Environ(), "GOMAXPROCS=2")
			var stderr strings.Builder
			cmd.Stderr = &stderr
			out, err := cmd.Output()
			var r scenarioResult
			if err != nil || json.Unmarshal(out, &r) != nil {
				c.HarnessError("scenario %s failed: %v %.500s", sc.name, err, stderr.String())
				return
			}
			results[i] = &r
		}()
	}
	wg.Wait()
	os.MkdirAll(verifRoot+"/replays", 0o755)
	for _, r := range results {
		if r == nil {
			continue
		}
		c.Evals(r.Executions)
		c.States(r.Executions)
		c.Trans(r.Decisions)
		c.Traces(r.Executions)
		if r.Executions > int64(r.Threads) {
			c.Nontrivial(r.Executions - 1)
		}
		c.Count("executions_"+r.Name, r.Executions)
		c.Count("distinct_outcomes_"+r.Name, int64(r.Outcomes))
		c.Count("preemption_bound_completed_"+r.Name, int64(r.BoundCompleted))
		c.Count("preemption_bound_completed_every_point_"+r.Name, int64(r.AllPointsBound))
		var pts int64
		for _, p := range r.SoloPoints {
			pts += p
		}
		c.Count("solo_points_"+r.Name, pts)
		c.Count("shared_region_writes_"+r.Name, int64(len(r.Dirty)))
		if r.Capped {
			c.CapHit("execution cap in scenario " + r.Name)
		}
		c.Outcome(r.Name, fmt.Sprint(r.Outcomes))
		for _, v := range r.Violations {
			if strings.HasPrefix(v.Class, "harness/") {
				c.HarnessError("%s: %s", v.Class, v.What)
				continue
			}
			c.Fail(&Failure{Class: v.Class, What: fmt.Sprintf("[%s] %s", r.Name, v.What), Kind: "schedule", Replay: v})
		}
		if r.Name == "dawg-shared" || r.Name == "search-shards-n4-m2" {
			c.Sample(r.Name, map[string]interface{}{"threads": r.Threads, "solo_points": r.SoloPoints, "schedule": r.Sample, "mode": r.Mode})
		}
	}
	// race pass
	if rb := os.Getenv("MC19_RACE_BIN"); rb != "" {
		reps := "20"
		if tier == "thorough" {
			reps = "200"
		}
		var mu sync.Mutex
		races := 0
		for _, sc := range scs {
			sc := sc
			wg.Add(1)
			go func() {
				defer wg.Done()
				sem <- struct{}{}
				defer func() { <-sem }()
				cmd := exec.Command(rb, "race", sc.name, reps)
				cmd.Env = append(os.Environ(), "GORACE=halt_on_error=0 exitcode=66")
				out, err := cmd.CombinedOutput()
				s := string(out)
				if strings.Contains(s, "DATA RACE") {
					mu.Lock()
					races++
					mu.Unlock()
					idx := strings.Index(s, "DATA RACE")
					end := idx + 1500
					if end > len(s) {
						end = len(s)
					}
					c.Fail(&Failure{Class: "race-detector/data-race", What: fmt.Sprintf("[%s] free-running goroutines: %s", sc.name, strings.ReplaceAll(s[idx:end], "\n", " | ")), Kind: "race", Replay: map[string]string{"scenario": sc.name}})
				} else if strings.Contains(s, "RACE-PASS-MISMATCH") {
					c.Fail(&Failure{Class: "race-pass/result-differs-from-solo-run", What: fmt.Sprintf("[%s] %s", sc.name, firstLine(s, "RACE-PASS-MISMATCH")), Kind: "race", Replay: map[string]string{"scenario": sc.name}})
				} else if err != nil {
					c.HarnessError("race pass %s: %v %.300s", sc.name, err, s)
				}
			}()
		}
		wg.Wait()
		c.SetCount("race_pass_scenarios", int64(len(scs)))
		c.SetCount("race_pass_reports", int64(races))
		c.Note("race pass: %s repetitions of every scenario with real goroutines under -race", reps)
	} else {
		c.Note("race pass skipped (no -race binary)")
	}
	c.Assume("statement-level atomicity of the injected points; reads of the shared region are not tracked (delegated to the race pass); library code must not block on synchronisation primitives (it has none)")
	return c.Finish()
}

func firstLine(s, key string) string {
	for _, l := range strings.Split(s, "\n") {
		if strings.Contains(l, key) {
			return l
		}
	}
	return ""
}

func main() {
	if len(os.Args) < 2 {
		fmt.Fprintln(os.Stderr, "usage: mc19 run|scenario|race|replay ...")
		os.Exit(2)
	}
	loadSites()
	switch os.Args[1] {
	case "run":
		fs := flag.NewFlagSet("run", flag.ExitOnError)
		tier := fs.String("tier", "quick", "")
		fs.Parse(os.Args[2:])
		os.Exit(orchestrate(*tier))
	case "scenario":
		r := runScenario(os.Args[2], os.Args[3])
		b, _ := json.Marshal(r)
		os.Stdout.Write(b)
	case "race":
		reps := 20
		fmt.Sscan(os.Args[3], &reps)
		os.Exit(runRace(os.Args[2], reps))
	case "list":
		var names []string
		for _, s := range allScenarios() {
			names = append(names, s.name)
		}
		sort.Strings(names)
		fmt.Println(strings.Join(names, "\n"))
	case "replay":
		b, err := os.ReadFile(os.Args[2])
		if err != nil {
			fmt.Fprintln(os.Stderr, err)
			os.Exit(2)
		}
		var rf struct {
			Case violation `json:"case"`
		}
		json.Unmarshal(b, &rf)
		v := rf.Case
		var sc *scenario
		for _, s := range allScenarios() {
			if s.name == v.Scenario {
				s := s
				sc = &s
			}
		}
		if sc == nil {
			fmt.Println("replay: unknown scenario", v.Scenario)
			os.Exit(2)
		}
		mk := func() []func(func(int)) []string {
			in := sc.build()
			out := make([]func(func(int)) []string, len(in.threads))
			for i, b := range in.threads {
				out[i] = b
			}
			return out
		}
		var cand func(t int, pidx int64, site int32) bool
		if v.AllPts {
			cand = func(t int, pidx int64, site int32) bool { return true }
		}
		x1 := runScheduled(mk(), v.Schedule, cand, 1<<40)
		x2 := runScheduled(mk(), v.Schedule, cand, 1<<40)
		fmt.Println("schedule:", v.Schedule)
		for t := range x1.obs {
			in := sc.build()
			solo := in.threads[t](func(int) {})
			same := fmt.Sprint(solo) == fmt.Sprint(x1.obs[t])
			fmt.Printf("thread %d: same as solo run: %v\n  scheduled: %.300v\n  solo:      %.300v\n", t, same, x1.obs[t], solo)
		}
		fmt.Println("replayed twice identical:", fmt.Sprint(x1.obs) == fmt.Sprint(x2.obs))
	default:
		os.Exit(2)
	}
}
