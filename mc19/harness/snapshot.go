package main

// Deep snapshot / hash of the shared region S: every package-level variable of the instrumented
// library (through verifrt.Globals) plus the values a scenario shares between its threads.
// Works through unexported fields (reflection reads only) and follows pointers with cycle protection;
// slices are walked up to their capacity (scratch buffers live between len and cap).

import (
	"fmt"
	"math"
	"reflect"
	"sort"

	"github.com/Tom-Johnston/mamba/verifrt"
)

type walker struct {
	visit func(path func() string, val uint64)
	seen  map[[2]uintptr]bool
	leafs int
}

func strHash(s string) uint64 {
	h := uint64(1469598103934665603)
	for i := 0; i < len(s); i++ {
		h ^= uint64(s[i])
		h *= 1099511628211
	}
	return h
}

func (w *walker) walk(v reflect.Value, path func() string, depth int) {
	if depth > 200 {
		return
	}
	leaf := func(x uint64) {
		w.leafs++
		w.visit(path, x)
	}
	switch v.Kind() {
	case reflect.Bool:
		if v.Bool() {
			leaf(1)
		} else {
			leaf(0)
		}
	case reflect.Int, reflect.Int8, reflect.Int16, reflect.Int32, reflect.Int64:
		leaf(uint64(v.Int()))
	case reflect.Uint, reflect.Uint8, reflect.Uint16, reflect.Uint32, reflect.Uint64, reflect.Uintptr:
		leaf(v.Uint())
	case reflect.Float32, reflect.Float64:
		leaf(math.Float64bits(v.Float()))
	case reflect.Complex64, reflect.Complex128:
		c := v.Complex()
		leaf(math.Float64bits(real(c)) ^ math.Float64bits(imag(c))*31)
	case reflect.String:
		leaf(strHash(v.String()))
	case reflect.Ptr:
		if v.IsNil() {
			leaf(0)
			return
		}
		k := [2]uintptr{v.Pointer(), uintptr(v.Type().Size()) ^ strPtr(v.Type())}
		if w.seen[k] {
			leaf(2) // already walked through another path
			return
		}
		w.seen[k] = true
		leaf(1)
		w.walk(v.Elem(), func() string { return "(*" + path() + ")" }, depth+1)
	case reflect.Interface:
		if v.IsNil() {
			leaf(0)
			return
		}
		leaf(strHash(v.Elem().Type().String()))
		w.walk(v.Elem(), path, depth+1)
	case reflect.Slice:
		if v.IsNil() {
			leaf(0)
			return
		}
		leaf(uint64(v.Len())<<32 | uint64(v.Cap()))
		full := v.Slice(0, v.Cap())
		if full.Len() > 0 {
			k := [2]uintptr{full.Pointer(), uintptr(full.Len()) ^ strPtr(v.Type())<<1}
			if w.seen[k] {
				return
			}
			w.seen[k] = true
		}
		if v.Type().Elem().Kind() == reflect.Uint8 {
			b := full.Bytes()
			leaf(strHash(string(b)))
			return
		}
		for i := 0; i < full.Len(); i++ {
			i := i
			w.walk(full.Index(i), func() string { return fmt.Sprintf("%s[%d]", path(), i) }, depth+1)
		}
	case reflect.Array:
		for i := 0; i < v.Len(); i++ {
			i := i
			w.walk(v.Index(i), func() string { return fmt.Sprintf("%s[%d]", path(), i) }, depth+1)
		}
	case reflect.Struct:
		t := v.Type()
		for i := 0; i < v.NumField(); i++ {
			i := i
			w.walk(v.Field(i), func() string { return path() + "." + t.Field(i).Name }, depth+1)
		}
	case reflect.Map:
		if v.IsNil() {
			leaf(0)
			return
		}
		keys := v.MapKeys()
		sort.Slice(keys, func(i, j int) bool { return fmt.Sprint(keys[i]) < fmt.Sprint(keys[j]) })
		leaf(uint64(len(keys)))
		for _, k := range keys {
			k := k
			w.walk(k, func() string { return path() + "{key}" }, depth+1)
			w.walk(v.MapIndex(k), func() string { return fmt.Sprintf("%s[%v]", path(), k) }, depth+1)
		}
	case reflect.Func, reflect.Chan, reflect.UnsafePointer:
		leaf(uint64(v.Pointer()))
	}
}

func strPtr(t reflect.Type) uintptr { return uintptr(strHash(t.String())) }

type sharedRegion struct {
	roots []reflect.Value
	names []string
}

// newRegion collects the package-level variables of the library and the scenario's shared values.
func newRegion(shared map[string]interface{}) *sharedRegion {
	r := &sharedRegion{}
	pkgs := make([]string, 0, len(verifrt.Globals))
	for p := range verifrt.Globals {
		pkgs = append(pkgs, p)
	}
	sort.Strings(pkgs)
	for _, p := range pkgs {
		for i, ptr := range verifrt.Globals[p]() {
			r.roots = append(r.roots, reflect.ValueOf(ptr).Elem())
			nm := fmt.Sprintf("var#%d", i)
			if ns := verifrt.Names[p]; i < len(ns) {
				nm = ns[i]
			}
			r.names = append(r.names, p+"."+nm)
		}
	}
	names := make([]string, 0, len(shared))
	for n := range shared {
		names = append(names, n)
	}
	sort.Strings(names)
	for _, n := range names {
		r.roots = append(r.roots, reflect.ValueOf(shared[n]))
		r.names = append(r.names, "shared:"+n)
	}
	return r
}

func (r *sharedRegion) hash() uint64 {
	h := uint64(7)
	w := &walker{seen: map[[2]uintptr]bool{}}
	w.visit = func(_ func() string, val uint64) { h = mix(h, val) }
	for i, root := range r.roots {
		i := i
		w.walk(root, func() string { return r.names[i] }, 0)
	}
	return h
}

// leaves returns the flat list of (path, value) of the region (used only at points where the hash changed).
func (r *sharedRegion) leaves() map[string]uint64 {
	out := map[string]uint64{}
	w := &walker{seen: map[[2]uintptr]bool{}}
	w.visit = func(path func() string, val uint64) {
		p := path()
		for k := 0; ; k++ { // several leaves may share a path (len/cap marker and content): number them
			key := fmt.Sprintf("%s#%d", p, k)
			if _, ok := out[key]; !ok {
				out[key] = val
				break
			}
		}
	}
	for i, root := range r.roots {
		i := i
		w.walk(root, func() string { return r.names[i] }, 0)
	}
	return out
}

func diffLeaves(a, b map[string]uint64) []string {
	var out []string
	for k, v := range b {
		if av, ok := a[k]; !ok || av != v {
			out = append(out, k)
		}
	}
	for k := range a {
		if _, ok := b[k]; !ok {
			out = append(out, k)
		}
	}
	sort.Strings(out)
	return out
}
