package main

// Scenarios for C19: 2-3 logical threads, each working on its own values or only reading shared ones.
// Every scenario is rebuilt from scratch for every execution.

import (
	"fmt"
	"sort"
	"strings"

	"github.com/Tom-Johnston/mamba/comb"
	"github.com/Tom-Johnston/mamba/dawg"
	"github.com/Tom-Johnston/mamba/disjoint"
	"github.com/Tom-Johnston/mamba/ints"
	"github.com/Tom-Johnston/mamba/tsp"
	"github.com/Tom-Johnston/mamba/graph"
	"github.com/Tom-Johnston/mamba/graph/search"
	"github.com/Tom-Johnston/mamba/itertools"
	"github.com/Tom-Johnston/mamba/sortints"
)

type threadBody func(boundary func(int)) []string

type instance struct {
	shared  map[string]interface{}
	threads []threadBody
}

type scenario struct {
	name  string
	build func() *instance
}

// opsBody runs the operations in order, with an API boundary before each.
func opsBody(ops ...func() string) threadBody {
	return func(boundary func(int)) []string {
		var obs []string
		for i, op := range ops {
			boundary(i)
			obs = append(obs, op())
		}
		return obs
	}
}

func searchBody(mk func() *search.GraphIterator) threadBody {
	return func(boundary func(int)) []string {
		var obs []string
		boundary(0)
		it := mk()
		for i := 1; ; i++ {
			boundary(i)
			if !it.Next() {
				break
			}
			obs = append(obs, graph.Graph6Encode(it.Value()))
			if i > 5000 {
				obs = append(obs, "TOO-MANY")
				break
			}
		}
		return obs
	}
}

func drainInts(next func() bool, value func() []int) string {
	s := ""
	for i := 0; next(); i++ {
		s += fmt.Sprint(value())
		if i > 10000 {
			return s + "TOO-MANY"
		}
	}
	return s
}

func triangleFreePrune(g *graph.DenseGraph) bool {
	n := g.N()
	for a := 0; a < n; a++ {
		for b := 0; b < a; b++ {
			for c := 0; c < b; c++ {
				if g.IsEdge(a, b) && g.IsEdge(a, c) && g.IsEdge(b, c) {
					return true
				}
			}
		}
	}
	return false
}

func noPrune(g *graph.DenseGraph) bool { return false }

func iteratorOps() []func() string {
	return []func() string{
		func() string { it := itertools.Combinations(4, 2); return drainInts(it.Next, it.Value) },
		func() string { it := itertools.CombinationsColex(5, 2); return drainInts(it.Next, it.Value) },
		func() string {
			it := itertools.MultisetCombinations([]int{2, 0, 1}, 2)
			return drainInts(it.Next, func() []int { return append(append([]int{}, it.FreqValue()...), it.Value()...) })
		},
		func() string { it := itertools.Permutations(3); return drainInts(it.Next, it.Value) },
		func() string { it := itertools.LexicographicPermutations(4); return drainInts(it.Next, it.Value) },
		func() string { it := itertools.MultisetPermutations([]int{2, 1}); return drainInts(it.Next, it.Value) },
		func() string {
			it := itertools.Partitions(3)
			s := ""
			for it.Next() {
				s += fmt.Sprint(it.Value())
			}
			return s
		},
		func() string { it := itertools.IntegerPartitions(5); return drainInts(it.Next, it.Value) },
		func() string { it := itertools.Product(2, 3); return drainInts(it.Next, it.Value) },
		func() string {
			it := itertools.RestrictedPrefixProduct(func(a []int) bool { return a[len(a)-1] != 1 || len(a) == 1 }, 2, 3)
			return drainInts(it.Next, it.Value)
		},
		func() string {
			it := itertools.TopologicalSorts(4, func(i, j int) bool { return i == 0 && j == 2 })
			return drainInts(it.Next, it.Value)
		},
		func() string {
			it := itertools.RestrictedPrefixPermutations(3, func(a []int) bool { return a[0] != 1 })
			return drainInts(it.Next, it.Value)
		},
		func() string {
			it := itertools.PermutationsByPattern(3, func(a []int) bool { return !(len(a) == 2 && a[0] > a[1]) })
			return drainInts(it.Next, it.Value)
		},
	}
}

func wordsBytes(ws ...string) [][]byte {
	out := make([][]byte, len(ws))
	for i, w := range ws {
		out[i] = []byte(w)
	}
	return out
}

func searchObs(d *dawg.Dawg, s ...dawg.Searcher) string {
	sol, ids := d.Search(s...)
	out := ""
	for i := range sol {
		out += fmt.Sprintf("%s:%d ", sol[i], ids[i])
	}
	return out
}

func sharedGraphThreads(g graph.Graph) []threadBody {
	return []threadBody{
		opsBody(
			func() string { x, c := graph.ChromaticNumber(g); return fmt.Sprint(x, c) },
			func() string { return fmt.Sprint(graph.CliqueNumber(g), graph.IndependenceNumber(g)) },
		),
		opsBody(
			func() string { return fmt.Sprint(graph.Girth(g), graph.IsPlanar(g)) },
			func() string {
				ch := make(chan []int, 64)
				graph.AllMaximalCliques(g, ch)
				var cs []string
				for c := range ch {
					x := append([]int{}, c...)
					sort.Ints(x)
					cs = append(cs, fmt.Sprint(x))
				}
				sort.Strings(cs)
				return fmt.Sprint(cs)
			},
			func() string { a, b := graph.BiconnectedComponents(g); return fmt.Sprint(a, b, graph.Eccentricity(g)) },
		),
		opsBody(
			func() string { p, o, gen := graph.CanonicalIsomorphFull(g, nil); return fmt.Sprint(p, o, gen) },
			func() string { return fmt.Sprint(graph.Degeneracy(g)) + graph.Sparse6Encode(g) + graph.Graph6Encode(g) },
		),
	}
}

// wideGraphThreads calls the remaining observer / transformation functions on one shared graph.
func wideGraphThreads(g graph.EditableGraph) []threadBody {
	return []threadBody{
		opsBody(
			func() string { a, b := graph.ChromaticIndex(g); return fmt.Sprint(a, b) },
			func() string { return fmt.Sprint(graph.ChromaticPolynomial(g.Copy())) },
			func() string { return fmt.Sprint(graph.NumberOfCycles(g.Copy()), graph.NumberOfInducedCycles(g, -1)) },
			func() string { ok, c := graph.IsKColorable(g, 3); return fmt.Sprint(ok, c, graph.IsProperColouring(g, c)) },
		),
		opsBody(
			func() string { return fmt.Sprint(graph.NumberOfInducedPaths(g, 3), graph.Diameter(g), graph.Radius(g)) },
			func() string { return fmt.Sprint(graph.Distance(g, 0, 6), graph.ConnectedComponents(g), graph.ConnectedComponent(g, 3)) },
			func() string {
				order := make([]int, g.N())
				for i := range order {
					order[i] = g.N() - 1 - i
				}
				a, b := graph.GreedyColor(g, order)
				return fmt.Sprint(a, b, graph.MinDegree(g), graph.MaxDegree(g))
			},
			func() string {
				l := graph.LineGraphDense(g)
				c := graph.ComplementDense(g)
				v := graph.Complement(g)
				return graph.Graph6Encode(l) + graph.Graph6Encode(c) + fmt.Sprint(v.Neighbours(0), graph.Equal(c, v), graph.RandomMaximalClique(g, 7))
			},
		),
		opsBody(
			func() string {
				h := g.Copy()
				graph.SplitEdge(h, 0, 1)
				graph.Contract(h, 2, 3)
				h.RemoveVertex(1)
				return graph.Graph6Encode(h) + fmt.Sprint(graph.InducedSubgraph(g, []int{4, 0, 2}).Degrees(), g.InducedSubgraph([]int{5, 4, 6}).Degrees())
			},
			func() string {
				d, e1 := graph.Graph6Decode(graph.Graph6Encode(g))
				s6, e2 := graph.Sparse6Decode(graph.Sparse6Encode(g))
				m := graph.MulticodeDecode(graph.MulticodeEncode(g))
				return fmt.Sprint(e1, e2, graph.Equal(d, g), graph.Equal(s6, g), graph.Equal(m, g), graph.AdjacencyMatrixEncode(g))
			},
		),
	}
}

func testGraphEdges() (int, [][2]int) {
	// a 7-vertex graph with a 5-cycle, a chord, a pendant triangle and an isolated vertex
	return 8, [][2]int{{0, 1}, {1, 2}, {2, 3}, {3, 4}, {0, 4}, {0, 2}, {4, 5}, {5, 6}, {4, 6}}
}

func allScenarios() []scenario {
	var out []scenario
	mkSearch := func(name string, n, m int, pruned bool) scenario {
		return scenario{name, func() *instance {
			in := &instance{}
			for a := 0; a < m; a++ {
				a := a
				in.threads = append(in.threads, searchBody(func() *search.GraphIterator {
					if pruned {
						return search.WithPruning(n, a, m, noPrune, triangleFreePrune)
					}
					return search.All(n, a, m)
				}))
			}
			return in
		}}
	}
	out = append(out, mkSearch("search-shards-n4-m2", 4, 2, false), mkSearch("search-shards-n4-m3", 4, 3, false), mkSearch("search-shards-n5-m2", 5, 2, false), mkSearch("search-pruned-n5-m2", 5, 2, true))
	out = append(out, scenario{"canonical-full", func() *instance {
		c4k1 := graph.NewDense(5, nil)
		for _, e := range [][2]int{{0, 1}, {1, 2}, {2, 3}, {0, 3}} {
			c4k1.AddEdge(e[0], e[1])
		}
		p5 := graph.Path(5)
		// results are kept and printed again later: a returned permutation belongs to the caller
		var heldA, heldB [][]int
		return &instance{threads: []threadBody{
			opsBody(
				func() string { p, o, g := graph.CanonicalIsomorphFull(c4k1, nil); heldA = append(heldA, p); return fmt.Sprint(p, o, g) },
				func() string { p, o, g := graph.CanonicalIsomorphFull(c4k1, [][]int{{0, 2}, {1, 3, 4}}); heldA = append(heldA, p); return fmt.Sprint(p, o, g, heldA) },
				func() string { p := graph.CanonicalIsomorph(graph.Star(4)); heldA = append(heldA, p); return fmt.Sprint(heldA) },
			),
			opsBody(
				func() string { p, o, g := graph.CanonicalIsomorphFull(p5, nil); heldB = append(heldB, p); return fmt.Sprint(p, o, g) },
				func() string { p := graph.CanonicalIsomorph(graph.Cycle(6)); heldB = append(heldB, p); return fmt.Sprint(heldB) },
				func() string { p := graph.CanonicalIsomorph(graph.Path(3)); heldB = append(heldB, p); return fmt.Sprint(heldB) },
			),
		}}
	}})
	out = append(out, scenario{"canonical-allocated", func() *instance {
		// each thread owns one storage/partition pair and pushes several graphs through it (sizes going down,
		// edgeless graphs included); results a thread still holds from another pair's point of view are
		// re-observed at the end: they may only change through the thread's own later calls
		mk := func(other *[]string, gs ...*graph.DenseGraph) threadBody {
			storage := graph.NewStorage(6, 15)
			op := graph.NewOrderedPartition(6, 15, nil)
			opts := new(graph.CanonicalOptions)
			var ops []func() string
			var held [][]int
			for _, g := range gs {
				g := g
				ops = append(ops, func() string {
					nb := make([][]int, g.N())
					for i := range nb {
						nb[i] = g.Neighbours(i)
					}
					op.Reset(g.N(), g.M(), nil)
					p, o, gen := graph.CanonicalIsomorphAllocated(g.N(), g.M(), nb, op, storage, opts)
					held = append(held[:0], gen...)
					return fmt.Sprint(p, o, gen)
				})
				// observe the result of the last call again after the other thread had a chance to run
				ops = append(ops, func() string { return fmt.Sprint(held) })
			}
			return opsBody(ops...)
		}
		return &instance{threads: []threadBody{
			mk(nil, graph.NewDense(4, nil), graph.Cycle(4), graph.Star(4), graph.CompleteGraph(3), graph.NewDense(3, nil)),
			mk(nil, graph.NewDense(4, nil), graph.Path(4), graph.NewDense(3, nil), graph.CompletePartiteGraph(2, 2)),
		}}
	}})
	out = append(out, scenario{"iterators", func() *instance {
		return &instance{threads: []threadBody{opsBody(iteratorOps()...), opsBody(iteratorOps()...)}}
	}})
	out = append(out, scenario{"dawg-builders", func() *instance {
		mk := func(words ...string) threadBody {
			db := new(dawg.Builder)
			var d *dawg.Dawg
			var ops []func() string
			for _, w := range words {
				w := w
				ops = append(ops, func() string { return fmt.Sprint(db.Add([]byte(w))) })
			}
			ops = append(ops, func() string {
				var err error
				d, err = db.Finish()
				return fmt.Sprint(err, d.NumberOfWords())
			}, func() string {
				s := ""
				for _, w := range append(words, "zz", "") {
					r, ok := d.Lookup([]byte(w))
					s += fmt.Sprint(r, ok, " ")
				}
				return s + searchObs(d, dawg.NewPatternSearcher([]byte("??"), '?'))
			})
			return opsBody(ops...)
		}
		return &instance{threads: []threadBody{mk("ab", "abc", "b", "bc"), mk("a", "ab", "ab", "bb", "ca")}}
	}})
	out = append(out, scenario{"dawg-shared", func() *instance {
		d, err := dawg.New(wordsBytes("", "ab", "abc", "abd", "b", "bab", "bc", "cab"))
		if err != nil {
			panic(err)
		}
		return &instance{shared: map[string]interface{}{"dawg": d}, threads: []threadBody{
			opsBody(
				func() string { r, ok := d.Lookup([]byte("abd")); return fmt.Sprint(r, ok) },
				func() string { r, ok := d.Lookup([]byte("ba")); return fmt.Sprint(r, ok, d.NumberOfWords()) },
				func() string { r, ok := d.Lookup([]byte("cab")); return fmt.Sprint(r, ok) },
			),
			opsBody(
				func() string { return searchObs(d, dawg.NewPatternSearcher([]byte("?a?"), '?')) },
				func() string { return searchObs(d, dawg.NewPatternSearcher([]byte("ab?"), '?')) },
			),
			opsBody(
				func() string { return searchObs(d, dawg.NewAnagramSearcher([]byte("ba?"), '?')) },
				func() string {
					return searchObs(d, dawg.NewAnagramSearcher([]byte("bca"), '?'), dawg.NewPatternSearcher([]byte("???"), '?'))
				},
				func() string { b, _ := d.GobEncode(); return fmt.Sprint(len(b), strHash(string(b))) },
			),
		}}
	}})
	out = append(out, scenario{"dawg-shared-wide", func() *instance {
		// a Dawg with wide nodes (20 and 12 links, final inner nodes): link-count dependent code paths
		var ws []string
		ws = append(ws, "")
		for i := 0; i < 20; i++ {
			l := string([]byte{byte('a' + i)})
			ws = append(ws, l)
			if i%4 == 0 {
				for j := 0; j < 12; j++ {
					ws = append(ws, l+string([]byte{byte('a' + j)}))
				}
			}
		}
		sort.Strings(ws)
		d, err := dawg.New(wordsBytes(ws...))
		if err != nil {
			panic(err)
		}
		look := func(words ...string) func() string {
			return func() string {
				s := ""
				for _, w := range words {
					r, ok := d.Lookup([]byte(w))
					s += fmt.Sprint(r, ok, " ")
				}
				return s
			}
		}
		return &instance{shared: map[string]interface{}{"dawg": d}, threads: []threadBody{
			opsBody(look("t", "ea", "el", "", "zz"), look("a", "ab", "ma"), look("q", "ia")),
			opsBody(look("s", "al", "m"), func() string { return searchObs(d, dawg.NewPatternSearcher([]byte("?c"), '?')) }),
			opsBody(func() string { return searchObs(d, dawg.NewAnagramSearcher([]byte("a?"), '?')) }, look("e", "ek", "t")),
		}}
	}})
	for _, rep := range []string{"dense", "sparse"} {
		rep := rep
		out = append(out, scenario{"graph-shared-" + rep, func() *instance {
			n, edges := testGraphEdges()
			var g graph.EditableGraph = graph.NewDense(n, nil)
			if rep == "sparse" {
				g = graph.NewSparse(n, nil)
			}
			for _, e := range edges {
				g.AddEdge(e[0], e[1])
			}
			return &instance{shared: map[string]interface{}{"graph": g}, threads: sharedGraphThreads(g)}
		}})
	}
	out = append(out, scenario{"graph-shared-wide", func() *instance {
		n, edges := testGraphEdges()
		g := graph.NewSparse(n, nil)
		for _, e := range edges {
			g.AddEdge(e[0], e[1])
		}
		return &instance{shared: map[string]interface{}{"graph": g}, threads: wideGraphThreads(g)}
	}})
	out = append(out, scenario{"graph-shared-wide-dense", func() *instance {
		// the same wide set of read-only functions on a shared DenseGraph, plus the views and degree observers
		n, edges := testGraphEdges()
		g := graph.NewDense(n, nil)
		for _, e := range edges {
			g.AddEdge(e[0], e[1])
		}
		ths := wideGraphThreads(g)
		ths[0] = opsBody(
			func() string {
				v := graph.Complement(g)
				return fmt.Sprint(v.Degrees(), graph.MinDegree(v), graph.MaxDegree(v), v.M(), g.Degrees())
			},
			func() string { a, b := graph.ChromaticIndex(g); return fmt.Sprint(a, b, g.Degrees(), graph.MinDegree(g)) },
			func() string { ok, c := graph.IsKColorable(g, 3); return fmt.Sprint(ok, c, graph.IsProperColouring(g, c)) },
		)
		return &instance{shared: map[string]interface{}{"graph": g}, threads: ths}
	}})
	for _, rep := range []string{"dense", "sparse"} {
		rep := rep
		out = append(out, scenario{"tree-shared-" + rep, func() *instance {
			// one shared tree: Pruefer encoding, degree observers, complement view, labelling
			var t graph.EditableGraph = graph.NewDense(7, nil)
			if rep == "sparse" {
				t = graph.NewSparse(7, nil)
			}
			for _, e := range [][2]int{{0, 1}, {1, 2}, {2, 3}, {3, 4}, {2, 5}, {5, 6}} {
				t.AddEdge(e[0], e[1])
			}
			return &instance{shared: map[string]interface{}{"tree": t}, threads: []threadBody{
				opsBody(
					func() string { return fmt.Sprint(graph.PruferEncode(t)) },
					func() string { return fmt.Sprint(t.Degrees(), graph.MinDegree(t), graph.MaxDegree(t)) },
				),
				opsBody(
					func() string { return fmt.Sprint(t.Degrees(), graph.Diameter(t), graph.Radius(t)) },
					func() string { v := graph.Complement(t); return fmt.Sprint(v.Degrees(), graph.MinDegree(v), t.Degrees()) },
				),
				opsBody(
					func() string { return fmt.Sprint(graph.CanonicalIsomorph(t), graph.PruferEncode(t)) },
					func() string { return fmt.Sprint(graph.Degeneracy(t)) + fmt.Sprint(t.Degrees()) },
				),
			}}
		}})
	}
	for _, rep := range []string{"dense", "sparse"} {
		rep := rep
		out = append(out, scenario{"graph-shared-same-calls-" + rep, func() *instance {
			// every goroutine calls the SAME read-only functions on the shared graph (state a function keeps for itself
			// at package level only shows when two goroutines are inside that function)
			n, edges := testGraphEdges()
			var g graph.EditableGraph = graph.NewDense(n, nil)
			if rep == "sparse" {
				g = graph.NewSparse(n, nil)
			}
			for _, e := range edges {
				g.AddEdge(e[0], e[1])
			}
			body := func(seed int64) threadBody {
				return opsBody(
					func() string { return fmt.Sprint(graph.RandomMaximalClique(g, seed), graph.CliqueNumber(g)) },
					func() string { x, c := graph.ChromaticNumber(g); return fmt.Sprint(x, c, graph.Girth(g), graph.IsPlanar(g)) },
					func() string { a, b := graph.ChromaticIndex(g); return fmt.Sprint(a, b, g.Degrees(), graph.MinDegree(g)) },
					func() string {
						v := graph.Complement(g)
						return fmt.Sprint(v.Degrees(), graph.Diameter(g), graph.NumberOfInducedCycles(g, -1), graph.Graph6Encode(g), graph.Sparse6Encode(g))
					},
					func() string {
						p, o, gen := graph.CanonicalIsomorphFull(g, nil)
						d, order := graph.Degeneracy(g)
						return fmt.Sprint(p, o, gen, d, order)
					},
				)
			}
			return &instance{shared: map[string]interface{}{"graph": g}, threads: []threadBody{body(1), body(101)}}
		}})
	}
	out = append(out, scenario{"derived-values", func() *instance {
		// values derived from a shared graph (Copy, InducedSubgraph of an initial segment / of a permuted list) are the
		// deriving goroutine's own: it edits them while the others read the source
		n, edges := testGraphEdges()
		g := graph.NewDense(n, nil)
		for _, e := range edges {
			g.AddEdge(e[0], e[1])
		}
		s := graph.NewSparse(n, nil)
		for _, e := range edges {
			s.AddEdge(e[0], e[1])
		}
		edit := func(h graph.EditableGraph) string {
			h.RemoveEdge(0, 1)
			h.AddVertex([]int{0, 2})
			h.AddEdge(1, 3)
			h.RemoveVertex(1)
			return graph.Graph6Encode(h) + fmt.Sprint(h.Degrees())
		}
		return &instance{shared: map[string]interface{}{"dense": g, "sparse": s}, threads: []threadBody{
			opsBody(
				func() string { return edit(g.InducedSubgraph([]int{0, 1, 2, 3})) },
				func() string { return edit(s.InducedSubgraph([]int{0, 1, 2, 3, 4})) },
				func() string { return edit(g.Copy()) },
			),
			opsBody(
				func() string { return graph.Graph6Encode(g) + fmt.Sprint(g.Degrees()) },
				func() string { return graph.Graph6Encode(s) + fmt.Sprint(s.Degrees(), s.Neighbours(4)) },
				func() string { return graph.Sparse6Encode(g) + fmt.Sprint(g.M(), s.M()) },
			),
			opsBody(
				func() string { return edit(s.Copy()) },
				func() string { return edit(g.InducedSubgraph([]int{2, 0, 1, 4, 3})) },
				func() string { return edit(s.InducedSubgraph([]int{0, 1, 2})) },
			),
		}}
	}})
	out = append(out, scenario{"canonical-shared-classes", func() *instance {
		// labellings of different graphs with separate storage, all given the SAME vertex-class slices (read-only)
		classes := [][]int{{4, 0, 2}, {5, 3, 1}}
		one := [][]int{{1, 0, 2, 3, 4, 5}}
		mk := func(edges [][2]int) graph.Graph {
			g := graph.NewDense(6, nil)
			for _, e := range edges {
				g.AddEdge(e[0], e[1])
			}
			return g
		}
		gs := []graph.Graph{mk([][2]int{{0, 1}, {1, 2}, {2, 3}, {3, 4}, {4, 5}, {0, 5}}), mk([][2]int{{0, 2}, {2, 4}, {0, 4}, {1, 3}, {3, 5}, {1, 5}}), mk([][2]int{{0, 3}, {1, 4}, {2, 5}})}
		body := func(g graph.Graph) threadBody {
			return opsBody(
				func() string { p, o, gen := graph.CanonicalIsomorphFull(g, classes); return fmt.Sprint(p, o, gen, classes) },
				func() string { p, o, gen := graph.CanonicalIsomorphFull(g, one); return fmt.Sprint(p, o, gen, one) },
			)
		}
		return &instance{shared: map[string]interface{}{"classes": classes, "one": one}, threads: []threadBody{body(gs[0]), body(gs[1]), body(gs[2])}}
	}})
	out = append(out, scenario{"values-from-reused-arguments", func() *instance {
		// values built (before the goroutines start) from slices that their builder goes on to overwrite and reuse for
		// its own next values: constructors are documented to copy, so the first values belong to the goroutine using them
		dims := []int{2, 3}
		freq := []int{1, 2}
		edges := []byte{1, 0, 1}
		nbs := []sortints.SortedInts{{1}, {0, 2}, {1}}
		it1 := itertools.Product(dims...)
		mp1 := itertools.MultisetPermutations(freq)
		d1 := graph.NewDense(3, edges)
		s1 := graph.NewSparse(3, nbs)
		si1 := sortints.NewSortedInts(dims...)
		return &instance{shared: map[string]interface{}{}, threads: []threadBody{
			opsBody(
				func() string { return drainInts(it1.Next, it1.Value) },
				func() string { return drainInts(mp1.Next, mp1.Value) },
				func() string { return graph.Graph6Encode(d1) + graph.Graph6Encode(s1) + fmt.Sprint(si1, d1.Degrees(), s1.Neighbours(1)) },
			),
			opsBody(
				func() string {
					dims[0], dims[1] = 1, 1
					it2 := itertools.Product(dims...)
					return drainInts(it2.Next, it2.Value)
				},
				func() string {
					freq[0], freq[1] = 2, 0
					mp2 := itertools.MultisetPermutations(freq)
					return drainInts(mp2.Next, mp2.Value)
				},
				func() string {
					edges[0], edges[1], edges[2] = 0, 1, 0
					nbs[0], nbs[1], nbs[2] = sortints.SortedInts{2}, sortints.SortedInts{}, sortints.SortedInts{0}
					d2 := graph.NewDense(3, edges)
					s2 := graph.NewSparse(3, nbs)
					return graph.Graph6Encode(d2) + graph.Graph6Encode(s2) + fmt.Sprint(sortints.NewSortedInts(dims...))
				},
			),
		}}
	}})
	out = append(out, scenario{"dawg-shared-arguments", func() *instance {
		// the goroutines build their searchers and lookups from the SAME read-only byte slices
		d, err := dawg.New(wordsBytes("opts", "post", "pots", "spot", "stop", "tops"))
		if err != nil {
			panic(err)
		}
		word := []byte("stop")
		pat := []byte("t?ps")
		return &instance{shared: map[string]interface{}{"dawg": d, "word": word, "pattern": pat}, threads: []threadBody{
			opsBody(
				func() string { return searchObs(d, dawg.NewAnagramSearcher(word, '?')) },
				func() string { return searchObs(d, dawg.NewAnagramSearcher(pat, '?')) },
			),
			opsBody(
				func() string { r, ok := d.Lookup(word); return fmt.Sprint(r, ok, string(word)) },
				func() string { return searchObs(d, dawg.NewPatternSearcher(pat, '?')) + string(pat) },
			),
			opsBody(
				func() string { return searchObs(d, dawg.NewPatternSearcher(word, '?')) },
				func() string {
					return searchObs(d, dawg.NewPatternSearcher(pat, '?'), dawg.NewAnagramSearcher(word, '?')) + string(word)
				},
			),
		}}
	}})
	out = append(out, scenario{"constructors-and-misc", func() *instance {
		mk := func(seed int64) threadBody {
			return opsBody(
				func() string {
					s := ""
					for _, g := range []*graph.DenseGraph{graph.CompleteGraph(4), graph.Path(5), graph.Cycle(5), graph.Star(4), graph.CompletePartiteGraph(2, 2, 1), graph.RookGraph(2, 3), graph.FlowerSnark(3), graph.HypercubeGraph(3), graph.FoldedHypercubeGraph(3), graph.KneserGraph(5, 2), graph.BipartiteKneserGraph(4, 1), graph.CirculantGraph(7, 1, 3), graph.CirculantBipartiteGraph(3, 4, 0, 1), graph.GeneralisedPetersenGraph(5, 2), graph.FriendshipGraph(3), graph.RandomGraph(6, 0.5, seed), graph.RandomTree(7, seed)} {
						s += graph.Graph6Encode(g) + " "
					}
					return s
				},
				func() string {
					t := graph.RandomTree(8, seed)
					code := graph.PruferEncode(t)
					return fmt.Sprint(code, graph.Equal(graph.PruferDecode(code), t), len(graph.MulticodeDecodeMultiple([]byte{2, 2, 0, 1, 3, 0, 0})))
				},
				func() string {
					var sb strings.Builder
					err := tsp.LIB(&sb, 4, func(i, j int) int { return i*10 + j + int(seed) })
					ds := disjoint.New(6)
					ds.Union(0, 1)
					ds.Union(2, 3)
					ds.Union(1, 3)
					x := []int{5, 3, 9, 1, 1, 8, int(seed)}
					ints.Sort(x)
					return fmt.Sprint(err, sb.Len(), ds.Sets(), ds.SmallestRep(), ds.Find(3) == ds.Find(0), x, ints.Max(x), ints.Sum(x))
				},
			)
		}
		return &instance{threads: []threadBody{mk(3), mk(4)}}
	}})
	out = append(out, scenario{"comb", func() *instance {
		return &instance{threads: []threadBody{
			opsBody(
				func() string { return fmt.Sprint(comb.Coeff(40, 7), comb.CoeffUint64(33, 16)) },
				func() string { return fmt.Sprint(comb.Rank([]int{1, 4, 9}), comb.Unrank(100, 3)) },
				func() string { return fmt.Sprint(comb.Coeffs(8)) },
			),
			opsBody(
				func() string { return graph.Graph6Encode(graph.KneserGraph(5, 2)) },
				func() string { return fmt.Sprint(comb.Coeff(20, 10), comb.Unrank(7, 2)) },
			),
		}}
	}})
	out = append(out, scenario{"sortints-shared", func() *instance {
		a := sortints.NewSortedInts(1, 3, 5, 7, 9)
		b := sortints.NewSortedInts(2, 3, 4, 9, 11)
		return &instance{shared: map[string]interface{}{"a": &a, "b": &b}, threads: []threadBody{
			opsBody(
				func() string { return fmt.Sprint(sortints.Union(a, b), sortints.Intersection(a, b)) },
				func() string { return fmt.Sprint(sortints.IntersectionSize(a, b), sortints.ContainsSingle(a, 5)) },
			),
			opsBody(
				func() string { return fmt.Sprint(sortints.XOR(a, b), sortints.SetMinus(a, b)) },
				func() string { return fmt.Sprint(sortints.ContainsSorted(a, b), sortints.Complement(8, a)) },
			),
			opsBody(
				func() string { c := sortints.NewSortedInts(a...); c.Union(b); c.Add(0, 4); c.Remove(3); return fmt.Sprint(c) },
			),
		}}
	}})
	return out
}
