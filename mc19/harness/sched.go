package main

// Controlled cooperative scheduler over the scheduling points injected into the library, and a
// preemption-bounded depth-first explorer of its decisions.

import (
	"fmt"
	"sync"

	"github.com/Tom-Johnston/mamba/verifrt"
)

type decPoint struct {
	thread      int   // running thread at the decision (-1: none, start of the execution)
	enabled     []int // canonical order: running thread first if still runnable, then ascending ids
	choice      int
	canStay     bool
	site        int32
	preemptions int // preemptions made before this decision
}

type budgetExceeded struct{}

type Sched struct {
	n        int
	wake     []chan struct{}
	done     []bool
	cur      int
	prefix   []int
	points   []decPoint
	pcount   []int64
	seqHash  []uint64
	preempts int
	allDone  chan struct{}
	budget   int64
	total    int64
	// candidate decides whether the pidx-th point of thread t (library site) is a possible preemption point
	candidate func(t int, pidx int64, site int32) bool
	diverged  string
	mu        sync.Mutex
}

func mix(h uint64, v uint64) uint64 {
	h ^= v + 0x9e3779b97f4a7c15 + (h << 6) + (h >> 2)
	return h
}

func (s *Sched) hook(site int32) {
	t := s.cur
	s.pcount[t]++
	s.total++
	s.seqHash[t] = mix(s.seqHash[t], uint64(site))
	if s.total > s.budget {
		panic(budgetExceeded{})
	}
	if s.candidate != nil && s.candidate(t, s.pcount[t], site) {
		s.decide(true, site)
	}
}

// Boundary is called by a thread body before each API operation.
func (s *Sched) Boundary(op int) {
	s.decide(true, int32(-1-op))
}

func (s *Sched) decide(canStay bool, site int32) {
	t := s.cur
	var enabled []int
	if canStay {
		enabled = append(enabled, t)
	}
	for i := 0; i < s.n; i++ {
		if i != t && !s.done[i] {
			enabled = append(enabled, i)
		}
	}
	if len(enabled) == 0 {
		return
	}
	choice := 0
	if len(enabled) > 1 {
		step := len(s.points)
		if step < len(s.prefix) {
			choice = s.prefix[step]
			if choice >= len(enabled) {
				s.diverged = fmt.Sprintf("replayed choice %d at step %d but only %d threads are enabled", choice, step, len(enabled))
				choice = 0
			}
		}
		s.points = append(s.points, decPoint{thread: t, enabled: enabled, choice: choice, canStay: canStay, site: site, preemptions: s.preempts})
	}
	next := enabled[choice]
	if next == t {
		return
	}
	if canStay {
		s.preempts++
	}
	s.cur = next
	s.wake[next] <- struct{}{}
	if canStay {
		<-s.wake[t]
	}
}

type execResult struct {
	obs      [][]string
	points   []decPoint
	pcount   []int64
	seqHash  []uint64
	diverged string
}

// run executes the thread bodies under the scheduler following prefix, then default choices.
// bodies[t](boundary) must call boundary(i) before its i-th operation and return its observations.
func runScheduled(bodies []func(boundary func(int)) []string, prefix []int, candidate func(t int, pidx int64, site int32) bool, budget int64) *execResult {
	n := len(bodies)
	s := &Sched{n: n, wake: make([]chan struct{}, n), done: make([]bool, n), cur: -1, prefix: prefix,
		pcount: make([]int64, n), seqHash: make([]uint64, n), allDone: make(chan struct{}), budget: budget, candidate: candidate}
	res := &execResult{obs: make([][]string, n)}
	for i := range s.wake {
		s.wake[i] = make(chan struct{}, 1)
	}
	for t := 0; t < n; t++ {
		t := t
		go func() {
			<-s.wake[t]
			func() {
				defer func() {
					if r := recover(); r != nil {
						if _, ok := r.(budgetExceeded); ok {
							res.obs[t] = append(res.obs[t], "STEP-BUDGET-EXCEEDED")
						} else {
							res.obs[t] = append(res.obs[t], fmt.Sprintf("PANIC: %v", r))
						}
					}
				}()
				res.obs[t] = bodies[t](s.Boundary)
			}()
			s.done[t] = true
			left := false
			for i := range s.done {
				if !s.done[i] {
					left = true
				}
			}
			if !left {
				close(s.allDone)
				return
			}
			s.decide(false, -1000000)
		}()
	}
	verifrt.Hook = s.hook
	// initial decision: no running thread
	s.cur = -1
	{
		enabled := make([]int, n)
		for i := range enabled {
			enabled[i] = i
		}
		choice := 0
		if n > 1 {
			if len(s.prefix) > 0 {
				choice = s.prefix[0]
				if choice >= n {
					s.diverged = "bad initial choice"
					choice = 0
				}
			}
			s.points = append(s.points, decPoint{thread: -1, enabled: enabled, choice: choice, canStay: false, site: -2000000})
		}
		s.cur = enabled[choice]
		s.wake[s.cur] <- struct{}{}
	}
	<-s.allDone
	verifrt.Hook = nil
	res.points = s.points
	res.pcount = s.pcount
	res.seqHash = s.seqHash
	res.diverged = s.diverged
	return res
}

// explore enumerates every schedule with at most bound preemptions (depth-first, iterative in the
// guidance's sense: callers raise bound step by step). check is called for every execution.
type explorer struct {
	bodies     func() []func(boundary func(int)) []string // fresh values for every execution
	candidate  func(t int, pidx int64, site int32) bool
	budget     int64
	bound      int
	executions int64
	maxExec    int64
	capped     bool
	check      func(choices []int, x *execResult) bool // false = stop exploring
	stop       bool
}

func (e *explorer) explore(prefix []int) {
	if e.stop {
		return
	}
	if e.maxExec > 0 && e.executions >= e.maxExec {
		e.capped = true
		return
	}
	x := runScheduled(e.bodies(), prefix, e.candidate, e.budget)
	e.executions++
	choices := make([]int, len(x.points))
	for i, p := range x.points {
		choices[i] = p.choice
	}
	if !e.check(choices, x) {
		e.stop = true
		return
	}
	for i := len(prefix); i < len(x.points); i++ {
		p := x.points[i]
		cost := p.preemptions
		if p.canStay {
			cost++
		}
		if cost > e.bound {
			continue
		}
		for alt := 1; alt < len(p.enabled); alt++ {
			np := append(append([]int{}, choices[:i]...), alt)
			e.explore(np)
			if e.stop {
				return
			}
		}
	}
}
