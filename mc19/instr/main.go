// Command instr copies a Go module tree and inserts a scheduling point verifrt.P(site) before every
// statement of every function (labels and goto preserved). It also emits, per package, a function
// verifGlobals() returning pointers to all package-level variables, registered with verifrt, and a
// site table (JSON) describing every point.
//
// usage: instr <src module dir> <dst dir> <module path> <site table json>
package main

import (
	"bytes"
	"encoding/json"
	"fmt"
	"go/ast"
	"go/parser"
	"go/printer"
	"go/token"
	"os"
	"path/filepath"
	"sort"
	"strings"
)

type site struct {
	ID       int    `json:"id"`
	File     string `json:"file"`
	Line     int    `json:"line"`
	Func     string `json:"func"`
	Exported bool   `json:"first_stmt_of_exported_func,omitempty"`
	Global   bool   `json:"mentions_package_level_var,omitempty"`
	Pkg      string `json:"pkg"`
}

var sites []site

func main() {
	if len(os.Args) != 5 {
		fmt.Fprintln(os.Stderr, "usage: instr <src> <dst> <module path> <sites.json>")
		os.Exit(2)
	}
	src, dst, modPath, sitesPath := os.Args[1], os.Args[2], os.Args[3], os.Args[4]
	pkgDirs := map[string][]string{}
	err := filepath.Walk(src, func(p string, info os.FileInfo, err error) error {
		if err != nil {
			return err
		}
		rel, _ := filepath.Rel(src, p)
		if info.IsDir() {
			if strings.HasPrefix(info.Name(), ".") && rel != "." {
				return filepath.SkipDir
			}
			return os.MkdirAll(filepath.Join(dst, rel), 0o755)
		}
		if strings.HasSuffix(p, "_test.go") {
			return nil
		}
		if strings.HasSuffix(p, ".go") {
			pkgDirs[filepath.Dir(rel)] = append(pkgDirs[filepath.Dir(rel)], rel)
			return nil
		}
		if info.Name() == "go.mod" || info.Name() == "go.sum" {
			b, err := os.ReadFile(p)
			if err != nil {
				return err
			}
			return os.WriteFile(filepath.Join(dst, rel), b, 0o644)
		}
		return nil
	})
	if err != nil {
		fatal(err)
	}
	dirs := make([]string, 0, len(pkgDirs))
	for d := range pkgDirs {
		dirs = append(dirs, d)
	}
	sort.Strings(dirs)
	for _, d := range dirs {
		files := pkgDirs[d]
		sort.Strings(files)
		instrumentPackage(src, dst, modPath, d, files)
	}
	// the runtime package
	os.MkdirAll(filepath.Join(dst, "verifrt"), 0o755)
	rt := `package verifrt

// Hook, when set, is called at every scheduling point of the instrumented library.
var Hook func(site int32)

// P is a scheduling point.
func P(site int32) {
	if h := Hook; h != nil {
		h(site)
	}
}

// Globals maps a package path to a function returning pointers to all its package-level variables.
var Globals = map[string]func() []interface{}{}

// Names maps a package path to the names of those variables (same order).
var Names = map[string][]string{}

// SyncPkgs lists the packages that import sync or sync/atomic (their shared state may be properly synchronised,
// so the write-footprint rules do not apply to them and preemption is restricted to API boundaries).
var SyncPkgs = map[string]bool{}

// RegisterSync is called from the init function of such a package.
func RegisterSync(pkg string) { SyncPkgs[pkg] = true }

// Register is called from the init function of every instrumented package.
func Register(pkg string, names []string, f func() []interface{}) { Globals[pkg] = f; Names[pkg] = names }
`
	if err := os.WriteFile(filepath.Join(dst, "verifrt", "rt.go"), []byte(rt), 0o644); err != nil {
		fatal(err)
	}
	b, _ := json.Marshal(sites)
	if err := os.WriteFile(sitesPath, b, 0o644); err != nil {
		fatal(err)
	}
	fmt.Printf("instrumented %d packages, %d points\n", len(dirs), len(sites))
}

func fatal(err error) {
	fmt.Fprintln(os.Stderr, "instr:", err)
	os.Exit(2)
}

func instrumentPackage(src, dst, modPath, dir string, files []string) {
	fset := token.NewFileSet()
	var parsed []*ast.File
	globals := map[string]bool{}
	pkgName := ""
	usesSync := false
	for _, f := range files {
		af, err := parser.ParseFile(fset, filepath.Join(src, f), nil, parser.ParseComments)
		if err != nil {
			fatal(err)
		}
		parsed = append(parsed, af)
		pkgName = af.Name.Name
		for _, im := range af.Imports {
			if im.Path.Value == `"sync"` || im.Path.Value == `"sync/atomic"` {
				usesSync = true
			}
		}
		for _, d := range af.Decls {
			if gd, ok := d.(*ast.GenDecl); ok && gd.Tok == token.VAR {
				for _, sp := range gd.Specs {
					for _, n := range sp.(*ast.ValueSpec).Names {
						if n.Name != "_" {
							globals[n.Name] = true
						}
					}
				}
			}
		}
	}
	pkgPath := modPath
	if dir != "." {
		pkgPath = modPath + "/" + filepath.ToSlash(dir)
	}
	for i, af := range parsed {
		rel := files[i]
		before := len(sites)
		for _, d := range af.Decls {
			fd, ok := d.(*ast.FuncDecl)
			if !ok || fd.Body == nil {
				continue
			}
			name := fd.Name.Name
			if fd.Recv != nil && len(fd.Recv.List) > 0 {
				name = recvName(fd.Recv.List[0].Type) + "." + name
			}
			exported := fd.Name.IsExported()
			first := true
			var visitBlock func(list []ast.Stmt) []ast.Stmt
			var visitStmt func(s ast.Stmt)
			visitBlock = func(list []ast.Stmt) []ast.Stmt {
				out := make([]ast.Stmt, 0, 2*len(list))
				for _, s := range list {
					id := len(sites)
					pos := fset.Position(s.Pos())
					sites = append(sites, site{ID: id, File: rel, Line: pos.Line, Func: name, Exported: exported && first, Global: mentions(s, globals), Pkg: pkgPath})
					first = false
					call := &ast.ExprStmt{X: &ast.CallExpr{
						Fun:  &ast.SelectorExpr{X: ast.NewIdent("verifrt"), Sel: ast.NewIdent("P")},
						Args: []ast.Expr{&ast.BasicLit{Kind: token.INT, Value: fmt.Sprint(id)}},
					}}
					out = append(out, call)
					visitStmt(s)
					out = append(out, s)
				}
				return out
			}
			visitStmt = func(s ast.Stmt) {
				switch x := s.(type) {
				case *ast.BlockStmt:
					x.List = visitBlock(x.List)
				case *ast.IfStmt:
					x.Body.List = visitBlock(x.Body.List)
					if x.Else != nil {
						visitStmt(x.Else)
					}
				case *ast.ForStmt:
					x.Body.List = visitBlock(x.Body.List)
				case *ast.RangeStmt:
					x.Body.List = visitBlock(x.Body.List)
				case *ast.SwitchStmt:
					for _, c := range x.Body.List {
						cc := c.(*ast.CaseClause)
						cc.Body = visitBlock(cc.Body)
					}
				case *ast.TypeSwitchStmt:
					for _, c := range x.Body.List {
						cc := c.(*ast.CaseClause)
						cc.Body = visitBlock(cc.Body)
					}
				case *ast.SelectStmt:
					for _, c := range x.Body.List {
						cc := c.(*ast.CommClause)
						cc.Body = visitBlock(cc.Body)
					}
				case *ast.LabeledStmt:
					visitStmt(x.Stmt)
				}
				// function literals inside expressions
				ast.Inspect(s, func(n ast.Node) bool {
					if fl, ok := n.(*ast.FuncLit); ok {
						if !isNested(s, fl) {
							fl.Body.List = visitBlock(fl.Body.List)
						}
						return false
					}
					if _, ok := n.(ast.Stmt); ok && n != s {
						return false // nested statements are handled by the structural recursion above
					}
					return true
				})
			}
			fd.Body.List = visitBlock(fd.Body.List)
		}
		// add the import
		if len(sites) > before {
			addImport(af, modPath+"/verifrt")
		}
		var buf bytes.Buffer
		// comments are dropped: their positions would be wrong after the rewrite and they carry no semantics
		af.Comments = nil
		stripDocs(af)
		if err := printer.Fprint(&buf, fset, af); err != nil {
			fatal(err)
		}
		if err := os.WriteFile(filepath.Join(dst, rel), buf.Bytes(), 0o644); err != nil {
			fatal(err)
		}
	}
	// globals table
	names := make([]string, 0, len(globals))
	for n := range globals {
		names = append(names, n)
	}
	sort.Strings(names)
	var sb strings.Builder
	fmt.Fprintf(&sb, "package %s\n\nimport \"%s/verifrt\"\n\nfunc init() {\n\tverifrt.Register(%q, %#v, func() []interface{} {\n\t\treturn []interface{}{", pkgName, modPath, pkgPath, names)
	for i, n := range names {
		if i > 0 {
			sb.WriteString(", ")
		}
		sb.WriteString("&" + n)
	}
	sb.WriteString("}\n\t})\n")
	if usesSync {
		fmt.Fprintf(&sb, "\tverifrt.RegisterSync(%q)\n", pkgPath)
	}
	sb.WriteString("}\n")
	if err := os.WriteFile(filepath.Join(dst, dir, "verif_globals.go"), []byte(sb.String()), 0o644); err != nil {
		fatal(err)
	}
}

// isNested reports whether fl lies inside a nested statement of s (then the structural recursion reaches it).
func isNested(s ast.Stmt, fl *ast.FuncLit) bool {
	nested := false
	ast.Inspect(s, func(n ast.Node) bool {
		if n == nil || nested {
			return false
		}
		if st, ok := n.(ast.Stmt); ok && st != s {
			if st.Pos() <= fl.Pos() && fl.End() <= st.End() {
				nested = true
			}
			return false
		}
		return true
	})
	return nested
}

func stripDocs(af *ast.File) {
	af.Doc = nil
	for _, d := range af.Decls {
		switch x := d.(type) {
		case *ast.FuncDecl:
			x.Doc = nil
		case *ast.GenDecl:
			x.Doc = nil
			for _, sp := range x.Specs {
				switch y := sp.(type) {
				case *ast.ValueSpec:
					y.Doc, y.Comment = nil, nil
				case *ast.TypeSpec:
					y.Doc, y.Comment = nil, nil
					if st, ok := y.Type.(*ast.StructType); ok {
						for _, f := range st.Fields.List {
							f.Doc, f.Comment = nil, nil
						}
					}
					if it, ok := y.Type.(*ast.InterfaceType); ok {
						for _, f := range it.Methods.List {
							f.Doc, f.Comment = nil, nil
						}
					}
				case *ast.ImportSpec:
					y.Doc, y.Comment = nil, nil
				}
			}
		}
	}
}

func recvName(e ast.Expr) string {
	switch x := e.(type) {
	case *ast.StarExpr:
		return recvName(x.X)
	case *ast.Ident:
		return x.Name
	}
	return "?"
}

func mentions(n ast.Node, globals map[string]bool) bool {
	found := false
	ast.Inspect(n, func(x ast.Node) bool {
		if id, ok := x.(*ast.Ident); ok && globals[id.Name] {
			found = true
		}
		return !found
	})
	return found
}

func addImport(af *ast.File, path string) {
	spec := &ast.ImportSpec{Path: &ast.BasicLit{Kind: token.STRING, Value: fmt.Sprintf("%q", path)}}
	for _, d := range af.Decls {
		if gd, ok := d.(*ast.GenDecl); ok && gd.Tok == token.IMPORT {
			gd.Specs = append(gd.Specs, spec)
			if !gd.Lparen.IsValid() {
				gd.Lparen = gd.Pos()
				gd.Rparen = gd.End()
			}
			af.Imports = append(af.Imports, spec)
			return
		}
	}
	gd := &ast.GenDecl{Tok: token.IMPORT, Specs: []ast.Spec{spec}}
	af.Decls = append([]ast.Decl{gd}, af.Decls...)
	af.Imports = append(af.Imports, spec)
}
