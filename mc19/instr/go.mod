module verifinstr

go 1.21
